#!/bin/sh
# harvest_seed.sh <prop> <suffix> : takes the uncommitted change + demo from /tmp/seedwt-<prop> into /verif/seeded/<prop>-<suffix>,
# confirms it (confirm_seed.sh) and runs the property's check on a scratch copy with the patch (try_patch.sh).
P=$1; S=${2:-b}; W=/tmp/seedwt-$P; D=/verif/seeded/$P-$S
mkdir -p $D
(cd $W && git checkout -q -- go.mod go.sum 2>/dev/null; git diff -- pkg > $D/patch.diff)
demo=$(cd $W && git ls-files --others --exclude-standard | grep '_test.go$' | head -1)
[ -n "$demo" ] || { echo "no demo test found"; exit 3; }
cp $W/$demo $D/demo_test.go
cp $W/SEED_NOTES.md $D/README.md 2>/dev/null
pkg=$(dirname $demo)
echo "demo package: $pkg; patch: $(grep -c '^[+-][^+-]' $D/patch.diff) changed lines in $(grep -c '^diff' $D/patch.diff) file(s)"
echo $pkg > $D/.pkg
/verif/tools/confirm_seed.sh $D $pkg
/verif/tools/try_patch.sh $D/patch.diff $P
