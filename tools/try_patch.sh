#!/bin/sh
# try_patch.sh <patch.diff> <property> [more properties]: applies the patch to a scratch copy of /repo and runs the checks there.
D=$(mktemp -d /var/tmp/govc-patch-XXXXXX)
trap 'rm -rf "$D"' EXIT
rsync -a --exclude .git /repo/ "$D/repo/"
P=$1; shift
(cd "$D/repo" && patch -p1 --no-backup-if-mismatch < "$P" >/dev/null) || { echo "PATCH FAILED"; exit 3; }
mkdir -p "$D/out"
for prop in "$@"; do
  ${GOVC:-/verif/bin/govc} check --property $prop --repo "$D/repo" --verif "$D/out" 2>&1 | grep -v "^note" | sed "s|$D/repo/||g; s|replay=[^ ]* ||" | cut -c1-330 | tail -6
done
