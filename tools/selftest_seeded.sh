#!/bin/sh
# Must-fail corpus: every seeded change under /verif/seeded must make the check of its property exit 1.
# Usage: tools/selftest_seeded.sh [seed ids...]   (scratch copies under /var/tmp, removed afterwards)
cd /verif
rc=0
for d in ${@:-$(ls seeded)}; do
  [ -f seeded/$d/patch.diff ] || continue
  prop=$(python3 -c "import json;print(json.load(open('seeded/$d/meta.json'))['property'])")
  out=$(tools/try_patch.sh /verif/seeded/$d/patch.diff $prop 2>&1)
  if echo "$out" | grep -q "^VIOLATION property=$prop"; then
    echo "caught  $d ($prop): $(echo "$out" | grep -c '^VIOLATION') violation line(s): $(echo "$out" | grep '^VIOLATION' | head -1 | sed 's/.*obligation=//' | cut -c1-120)"
  else
    echo "MISSED  $d ($prop)"; echo "$out" | tail -3; rc=1
  fi
done
exit $rc
