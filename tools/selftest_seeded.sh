#!/bin/sh
# Must-fail corpus: every seeded change under /verif/seeded must make the check of its property exit 1.
# Usage: tools/selftest_seeded.sh [seed ids...]   (scratch copies under /var/tmp, removed afterwards)
cd /verif
rc=0
for d in ${@:-$(ls seeded)}; do
  [ -f seeded/$d/patch.diff ] || continue
  prop=$(python3 -c "import json;print(json.load(open('seeded/$d/meta.json'))['property'])")
  out=$(tools/try_patch.sh /verif/seeded/$d/patch.diff $prop 2>&1)
  if echo "$out" | grep -q "^VIOLATION property=$prop"; then
    echo "caught  $d ($prop): $(echo "$out" | grep -c '^VIOLATION') violation line(s): $(echo "$out" | grep '^VIOLATION' | head -1 | sed 's/.*obligation=//' | cut -c1-120)"
  elif python3 -c "import json,sys;sys.exit(0 if json.load(open('seeded/$d/meta.json')).get('known_gap') else 1)"; then
    echo "known-gap $d ($prop): not caught (recorded as a known gap in its meta.json and in DESIGN.md 15)"
  else
    echo "MISSED  $d ($prop)"; echo "$out" | tail -3; rc=1
  fi
done
exit $rc
