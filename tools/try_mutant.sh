#!/bin/sh
# try_mutant.sh <file relative to repo> <sed expression> <govc dump --func arg | check --property arg>
# Applies a one-line mutation to a scratch copy of /repo and runs govc on it.
set -e
D=$(mktemp -d /var/tmp/govc-mut-XXXXXX)
trap 'rm -rf "$D" "$D.out"' EXIT
rsync -a --exclude .git /repo/ "$D/"
sed -i "$2" "$D/$1"
if diff -q "/repo/$1" "$D/$1" >/dev/null; then echo "MUTATION DID NOT APPLY"; exit 3; fi
shift 2
EXTRA=""; [ "$1" = check ] && { mkdir -p "$D.out"; EXTRA="--verif $D.out"; }
/verif/bin/govc "$@" --repo "$D" $EXTRA 2>&1 | grep -v "cover-ok\|^  discharged\|^note" | sed "s|$D|REPO|g" | cut -c1-220 | head -20
