#!/bin/sh
# Verifies every function under contract on its own (`govc dump --func F`): the obligations of a function must discharge
# whatever else is generated in the same process (the per-property checks generate several functions in parallel and share
# memoised callee write sets, so a proof must not depend on that order). Prints every obligation that is not discharged.
cd /verif
bin/govc list 2>/dev/null | awk '/ ok props=/{print $1}' | while read f; do
  out=$(timeout 1200 bin/govc dump --func "$f" --timeout ${1:-10} 2>&1 | grep "^  failed\|^  undecided\|^  cover-failed\|err=[^<]")
  [ -n "$out" ] && { echo "== $f"; echo "$out" | cut -c1-200; }
done
echo "sweep done"
