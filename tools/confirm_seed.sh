#!/bin/sh
# confirm_seed.sh <seed dir with patch.diff, demo_test.go> <package dir> : checks in a scratch worktree that
#  (a) the repo's tests pass with the change, (b) the demo fails with it, (c) the demo passes without it.
SEED=$1; PKG=$2
W=/tmp/confirm-$$
git -C /repo worktree add -q --detach $W HEAD || exit 3
trap 'git -C /repo worktree remove --force '$W' 2>/dev/null' EXIT
cd $W
export GOFLAGS=-mod=mod GOPROXY=off GOSUMDB=off GOTOOLCHAIN=local
git apply "$SEED/patch.diff" || { echo "PATCH DOES NOT APPLY"; exit 3; }
go build ./pkg/... || { echo "BUILD FAILS"; exit 3; }
a=$(go test -vet=off -count=1 ./pkg/... 2>&1 | grep -c "^FAIL\|^--- FAIL")
cp "$SEED/demo_test.go" "$PKG/zz_demo_test.go"
b=$(go test -vet=off -count=1 ./$PKG/ 2>&1 | grep -c "^--- FAIL")
git apply -R "$SEED/patch.diff"
c=$(go test -vet=off -count=1 ./$PKG/ 2>&1 | grep -c "^--- FAIL\|^FAIL")
echo "existing-tests-failures-with-change=$a demo-failures-with-change=$b demo-failures-without-change=$c"
[ "$a" = 0 ] && [ "$b" != 0 ] && [ "$c" = 0 ] && echo CONFIRMED
