#!/bin/sh
# Runs the quick check of every property registered in MANIFEST.json and rewrites the evidence files.
cd /verif
rc=0
for p in $(python3 -c "import json;print(' '.join(c['property_id'] for c in json.load(open('MANIFEST.json'))['checks']))"); do
  s=$(date +%s)
  out=$(bin/govc check --property $p --tier ${1:-quick} 2>&1); r=$?
  echo "$out" | grep "slow obligation" | cut -c1-200
  echo "$out" | grep -v "^note" | tail -3 | cut -c1-300
  echo "   -> $p exit=$r $(( $(date +%s) - s ))s"
  [ $r -ne 0 ] && rc=1
done
exit $rc
