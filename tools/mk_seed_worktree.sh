#!/bin/sh
# mk_seed_worktree.sh <id>: scratch worktree of /repo for an independent sub-agent, without the contract files
# (so that nothing the checks rely on is visible to it). The agent's change is `git diff` against the worktree's HEAD.
W=/tmp/seedwt-$1
git -C /repo worktree add -q --detach $W HEAD || exit 3
cd $W
git rm -q $(git ls-files | grep zz_contracts_verif.go)
git -c user.name=scratch -c user.email=s@x commit -q -m "scratch base without contract files"
echo $W
