#!/usr/bin/env python3
"""Generates /verif/MANIFEST.json from the table below (kept next to the checks so that it stays current)."""
import json, subprocess, sys, os

BASE = "for m in $(cat /w/out/gomods.txt); do MF=$(cd /repo/$m && . /w/out/goenv.sh && gomodflag); (cd /repo/$m && go test $MF -json -vet=off -count=1 -timeout 25m ./...); done"

COMMON_NOTE = ("Trusted base: the govc VC generator itself (unverified; guarded by cover checks, a must-fail corpus and three-solver agreement in the thorough tier), "
  "go/ssa construction, z3 4.8.12 / z3 5.1.0 / cvc5 1.0; assumed contracts of dependencies (client-go, apimachinery, controller-runtime, stdlib) as listed in each evidence file; "
  "integers are mathematical; termination is not proved; reflect.DeepEqual is an uninterpreted relation; goroutines are not interleaved. "
  "Contracts marked trusted / writes-assumed are listed in the evidence as unchecked assumptions.")

# id -> (claimed?, level text, technique)
CHECKS = {}

def add(pid, text, technique="contract-based deductive verification: weakest-precondition VCs over go/ssa of the real functions, discharged by z3/cvc5"):
    CHECKS[pid] = (text, technique)

NOT_YET = {}

def load_table():
    path = os.path.join(os.path.dirname(__file__), "properties_table.json")
    t = json.load(open(path))
    for pid, e in t["checks"].items():
        add(pid, e["text"])
    for pid, reason in t["not_applicable"].items():
        NOT_YET[pid] = reason

def main():
    load_table()
    hooks_commits = subprocess.run(["git", "-C", "/repo", "log", "--format=%H %s"], capture_output=True, text=True).stdout.splitlines()
    src = [l.split()[0] for l in hooks_commits if " verif hooks:" in l]
    man = {
        "version": 1,
        "setup_cmd": "./setup.sh",
        "hooks": {
            "guard": "verif",
            "enable": "contract files pkg/**/zz_contracts_verif.go carry `//go:build verif` and contain only //@ comments; govc loads /repo with -tags verif (the compiled code is identical with and without the tag)",
            "baseline_off_cmd": BASE,
            "source_commits": src,
            "add_only": True,
        },
        "engines": [{
            "name": "govc",
            "path": "/verif/govc",
            "serves_properties": sorted(CHECKS),
            "kind_free_text": "self-written deductive verifier for Go: contracts (requires/ensures/invariants/frames/effect guards) in comment-only files next to the code; weakest-precondition style VC generation by symbolic execution of go/ssa; SMT back ends z3 4.8.12, z3 5.1.0, cvc5 1.0 raced per obligation",
        }],
        "checks": [],
        "not_applicable": [{"property_id": p, "reason": r} for p, r in sorted(NOT_YET.items())],
        "notes": "Every check rebuilds SSA from /repo's current working tree. Exit 0: all obligations of the property discharged (known findings excepted); exit 1: VIOLATION lines; exit 2: engine fault (never a VIOLATION line).",
    }
    for pid in sorted(CHECKS):
        text, tech = CHECKS[pid]
        man["checks"].append({
            "property_id": pid,
            "quick_cmd": f"bin/govc check --property {pid} --tier quick",
            "thorough_cmd": f"bin/govc check --property {pid} --tier thorough",
            "evidence_file": f"/verif/evidence/{pid}.json",
            "replay_cmd_template": "cat {path}",
            "engine": "govc",
            "level_claimed": {"category": "proof", "text": text, "design_ref": "DESIGN.md section 6, " + pid},
            "level_note": COMMON_NOTE,
            "technique": tech,
        })
    json.dump(man, open("/verif/MANIFEST.json", "w"), indent=1)
    print("wrote MANIFEST.json:", len(man["checks"]), "checks,", len(man["not_applicable"]), "not applicable")

main()
