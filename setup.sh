#!/bin/sh
# Builds the verifier from vendored sources (offline) and warms the Go build cache for /repo.
set -e
cd "$(dirname "$0")"
export GOFLAGS=-mod=vendor GOPROXY=off GOSUMDB=off GOTOOLCHAIN=local CGO_ENABLED=0
mkdir -p bin evidence
(cd govc && go build -o ../bin/govc ./cmd/govc)
# warm the build cache (export data of the dependencies) without writing to /repo
REPO=${VERIF_REPO:-/repo}
S=$(mktemp -d /var/tmp/govc-setup-XXXXXX)
cp "$REPO/go.mod" "$REPO/go.sum" "$S/"
(cd "$REPO" && GOFLAGS="-mod=mod -modfile=$S/go.mod" go build ./pkg/... ) || true
rm -rf "$S"
echo "setup done"
