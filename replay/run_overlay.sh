#!/bin/sh
# Runs an in-package Go test against the real code of /repo without writing to /repo:
#   run_overlay.sh <package dir relative to repo> <test file> [<-run regexp>]
# The test file is injected with `go test -overlay`; go.mod/go.sum are used through a scratch copy.
set -e
REPO=${VERIF_REPO:-/repo}
PKG=$1; TESTFILE=$2; RUN=${3:-TestGovcReplay}
S=$(mktemp -d /var/tmp/govc-replay-XXXXXX)
trap 'rm -rf "$S"' EXIT
cp "$REPO/go.mod" "$REPO/go.sum" "$S/"
BASENAME=zz_govc_replay_$(basename "$TESTFILE")
cp "$TESTFILE" "$S/$BASENAME"
printf '{"Replace":{"%s/%s/%s":"%s/%s"}}\n' "$REPO" "$PKG" "$BASENAME" "$S" "$BASENAME" > "$S/overlay.json"
cd "$REPO/$PKG"
GOFLAGS="-mod=mod -modfile=$S/go.mod" GOPROXY=off GOSUMDB=off GOTOOLCHAIN=local \
  go test -overlay "$S/overlay.json" -vet=off -count=1 -timeout 120s -run "$RUN" . 2>&1
