package composite

// Replay of obligation composite.parentController.syncRevisions#pre@call.parentController.syncRollingUpdate (properties C13, C07):
// with a rolling update strategy the `Updated` condition is written into the status the hook returned; a hook answer without
// status ("status": null or absent) leaves that map nil and SetCondition -> SetNestedField assigns into a nil map: panic.

import (
	"testing"

	"k8s.io/apimachinery/pkg/apis/meta/v1/unstructured"

	"metacontroller/pkg/apis/metacontroller/v1alpha1"
	commonv1 "metacontroller/pkg/controller/common/api/v1"
	commonv2 "metacontroller/pkg/controller/common/api/v2"
	v1 "metacontroller/pkg/controller/composite/api/v1"
)

func TestGovcReplayRollingUpdateNilStatus(t *testing.T) {
	defer func() {
		if r := recover(); r != nil {
			t.Fatalf("worker panics when the hook returns no status: %v", r)
		}
	}()
	parent := &unstructured.Unstructured{Object: map[string]interface{}{
		"apiVersion": "example.com/v1", "kind": "Parent", "metadata": map[string]interface{}{"name": "p"},
	}}
	pc := &parentController{
		updateStrategy: updateStrategyMap{"Thing.example.com": &v1alpha1.CompositeControllerChildUpdateStrategy{Method: v1alpha1.ChildUpdateRollingInPlace}},
	}
	latest := &parentRevision{
		parent:          parent,
		revision:        &v1alpha1.ControllerRevision{},
		syncResult:      &v1.CompositeHookResponse{Status: nil},
		desiredChildMap: commonv1.MakeRelativeObjectMap(parent, nil),
	}
	if err := pc.syncRollingUpdate([]*parentRevision{latest}, commonv2.UniformObjectMap{}); err != nil {
		t.Logf("error (acceptable): %v", err)
	}
	if latest.syncResult.Status == nil {
		t.Fatalf("the Updated condition was not recorded")
	}
}
