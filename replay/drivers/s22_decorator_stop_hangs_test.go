package decorator

// Replay of obligation decorator.decoratorController.Start#post@ensures (property C20): the decorator never hands its stop
// channel to its customize manager (the composite controller does, via customize.Start), so a worker that waits for a related
// informer to sync (cache.WaitForNamedCacheSync(name, rm.stopCh, ...)) waits on a nil channel: if that informer never syncs the
// worker never returns and Stop() - and with it the reconciler that handles the controller's deletion or spec change - blocks
// for ever.

import (
	"fmt"
	"net/http"
	"net/http/httptest"
	"testing"
	"time"

	metav1 "k8s.io/apimachinery/pkg/apis/meta/v1"
	"k8s.io/apimachinery/pkg/runtime"
	"k8s.io/apimachinery/pkg/runtime/schema"
	"k8s.io/apimachinery/pkg/types"
	dynamicfake "k8s.io/client-go/dynamic/fake"
	"k8s.io/client-go/tools/record"
	clienttesting "k8s.io/client-go/testing"
	"sigs.k8s.io/controller-runtime/pkg/log/zap"

	"metacontroller/pkg/apis/metacontroller/v1alpha1"
	dynamicinformer "metacontroller/pkg/dynamic/informer"
	. "metacontroller/pkg/internal/testutils/common"
	. "metacontroller/pkg/internal/testutils/dynamic/clientset"
	. "metacontroller/pkg/internal/testutils/dynamic/discovery"
	"metacontroller/pkg/logging"
)

func TestGovcReplayDecoratorStopWithUnsyncedRelatedInformer(t *testing.T) {
	logging.InitLogging(&zap.Options{})
	server := httptest.NewServer(http.HandlerFunc(func(w http.ResponseWriter, r *http.Request) {
		w.Header().Set("Content-Type", "application/json")
		if r.URL.Path == "/customize" {
			_, _ = w.Write([]byte(`{"relatedResources":[{"apiVersion":"` + TestAPIVersion + `","resource":"things","labelSelector":{}}]}`))
			return
		}
		_, _ = w.Write([]byte(`{}`))
	}))
	defer server.Close()

	thing := metav1.APIResource{Name: "things", Namespaced: true, Group: TestGroup, Version: TestVersion, Kind: "Thing", Verbs: []string{"list", "watch", "get"}}
	lists := NewDefaultStatusAPIResourceList()
	lists[0].APIResources = append(lists[0].APIResources, thing)
	gvrToListKind := map[schema.GroupVersionResource]string{
		{Group: TestGroup, Version: TestVersion, Resource: TestResource}: TestResourceList,
		{Group: TestGroup, Version: TestVersion, Resource: "things"}:     "ThingList",
	}
	parent := NewDefaultUnstructured()
	parent.SetUID(types.UID("parent-uid"))
	dynClient := dynamicfake.NewSimpleDynamicClientWithCustomListKinds(runtime.NewScheme(), gvrToListKind, parent)
	// the related resource can never be listed: its informer never syncs
	dynClient.PrependReactor("list", "things", func(action clienttesting.Action) (bool, runtime.Object, error) {
		return true, nil, fmt.Errorf("things cannot be listed")
	})
	simpleClientset := NewFakeNewSimpleClientsetWithResources(lists)
	resourceMap := NewFakeResourceMap(simpleClientset)
	clientset := NewClientset(NewDefaultRestConfig(), resourceMap, dynClient)
	informerFactory := dynamicinformer.NewSharedInformerFactory(clientset, 5*time.Minute)

	syncURL, customizeURL := server.URL+"/sync", server.URL+"/customize"
	dc := &v1alpha1.DecoratorController{
		ObjectMeta: metav1.ObjectMeta{Name: "dc"},
		Spec: v1alpha1.DecoratorControllerSpec{
			Resources: []v1alpha1.DecoratorControllerResourceRule{{ResourceRule: v1alpha1.ResourceRule{APIVersion: TestAPIVersion, Resource: TestResource}}},
			Hooks: &v1alpha1.DecoratorControllerHooks{
				Sync:      &v1alpha1.Hook{Webhook: &v1alpha1.Webhook{URL: &syncURL}},
				Customize: &v1alpha1.Hook{Webhook: &v1alpha1.Webhook{URL: &customizeURL}},
			},
		},
	}
	c, err := newDecoratorController(resourceMap, clientset, informerFactory, &record.FakeRecorder{}, dc, 1, logging.Logger)
	if err != nil {
		t.Fatalf("constructor failed: %v", err)
	}
	c.Start()
	// give the worker time to pick the parent up and to start waiting for the related informer
	time.Sleep(3 * time.Second)
	done := make(chan struct{})
	go func() { c.Stop(); close(done) }()
	select {
	case <-done:
	case <-time.After(15 * time.Second):
		t.Fatalf("Stop() did not return within 15s: a worker is waiting for a related informer on a nil stop channel")
	}
}
