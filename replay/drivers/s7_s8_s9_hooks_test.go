package hooks

// Replays of failed obligations of property C19 / C20 in package hooks:
//   hooks.webhookExecutor.Call#post@ensures6          (strict mode must accept a well-formed response)
//   hooks.NewWebhookExecutor#safety@nilptr            (etag.cacheTimeoutSeconds set, cacheCleanupSeconds unset)
//   hooks.webhookExecutorEtag.adjustResponse#post@ensures1 (304: cached body must belong to the ETag that was sent)

import (
	"io"
	"net/http"
	"strings"
	"testing"
	"time"

	"k8s.io/apimachinery/pkg/apis/meta/v1/unstructured"

	"metacontroller/pkg/apis/metacontroller/v1alpha1"
	"metacontroller/pkg/controller/common"
)

type govcFakeClient struct {
	status int
	body   string
	header http.Header
}

func (f *govcFakeClient) Do(*http.Request) (*http.Response, error) {
	h := f.header
	if h == nil {
		h = http.Header{}
	}
	return &http.Response{StatusCode: f.status, Body: io.NopCloser(strings.NewReader(f.body)), Header: h}, nil
}

type govcFakeRequest struct{ root *unstructured.Unstructured }

func (r govcFakeRequest) GetRootObject() *unstructured.Unstructured { return r.root }

func TestGovcReplayStrictModeAcceptsWellFormed(t *testing.T) {
	mode := v1alpha1.ResponseUnmarshallModeStrict
	ex := newWebhookExecutor(&govcFakeClient{status: 200, body: `{"status":{"a":"b"}}`}, "http://hook", common.SyncHook, &mode, &webhookExecutorPlain{}, time.Now)
	var resp struct {
		Status map[string]interface{} `json:"status"`
	}
	if err := ex.Call(govcFakeRequest{}, &resp); err != nil {
		t.Fatalf("strict mode rejected a well-formed response: %v", err)
	}
}

func TestGovcReplayEtagCleanupUnset(t *testing.T) {
	defer func() {
		if r := recover(); r != nil {
			t.Fatalf("panic for an etag configuration without cacheCleanupSeconds: %v", r)
		}
	}()
	enabled := true
	timeout := int32(60)
	url := "http://hook"
	_, err := NewWebhookExecutor(&v1alpha1.Webhook{URL: &url, Etag: &v1alpha1.WebhookEtagConfig{Enabled: &enabled, CacheTimeoutSeconds: &timeout}}, "govc-replay", common.CompositeController, common.SyncHook)
	if err != nil {
		t.Fatalf("unexpected error: %v", err)
	}
}

func TestGovcReplayEtagBodyMatchesTagSent(t *testing.T) {
	enabled := true
	url := "http://hook"
	exI, err := NewWebhookExecutor(&v1alpha1.Webhook{URL: &url, Etag: &v1alpha1.WebhookEtagConfig{Enabled: &enabled}}, "govc-replay-etag", common.CompositeController, common.FinalizeHook)
	if err != nil {
		t.Fatal(err)
	}
	w := exI.(*webhookExecutor).webhookAbstract.(*webhookExecutorEtag)
	root := &unstructured.Unstructured{Object: map[string]interface{}{"kind": "K", "metadata": map[string]interface{}{"name": "n", "namespace": "ns"}}}
	req := govcFakeRequest{root: root}
	key := w.getKeyFromObject(root)
	// call 1 cached (ETag "a", body A)
	w.etagCache.Set(key, &eTagEntry{Etag: "a", Response: []byte("A")})
	// call 2 reads the entry and sends If-None-Match: a
	httpReq, _ := http.NewRequest("POST", url, nil)
	w.enrichHeaders(httpReq, req)
	if got := httpReq.Header.Get(headerIfNoneMatch); got != "a" {
		t.Fatalf("If-None-Match = %q", got)
	}
	// meanwhile a concurrent call about the same parent stores (ETag "b", body B)
	w.etagCache.Set(key, &eTagEntry{Etag: "b", Response: []byte("B")})
	// the server answers call 2 with 304 Not Modified (for tag "a")
	body, err := w.adjustResponse(httpReq, req, nil, &http.Response{StatusCode: http.StatusNotModified, Header: http.Header{}})
	if err == nil && string(body) != "A" {
		t.Fatalf("304 for ETag %q was answered with the body cached for another ETag: %q", "a", body)
	}
}
