package v2

// Replay of obligation composite.parentController.syncParentObject#pre@call.MakeUniformObjectMap
// (property C13): a hook response `{"children":[null]}` decodes to a nil entry in the children list.

import (
	"testing"

	"k8s.io/apimachinery/pkg/apis/meta/v1/unstructured"
)

func TestGovcReplayNilChild(t *testing.T) {
	defer func() {
		if r := recover(); r != nil {
			t.Fatalf("panic on a nil entry in the children list: %v", r)
		}
	}()
	parent := &unstructured.Unstructured{Object: map[string]interface{}{"metadata": map[string]interface{}{"name": "p", "namespace": "ns"}}}
	m := MakeUniformObjectMap(parent, []*unstructured.Unstructured{nil})
	for _, g := range m {
		for k, o := range g {
			if o == nil {
				t.Fatalf("nil object stored under %q", k)
			}
		}
	}
}
