package composite

// Replay of obligation composite.newParentController#effect@InformerMap.Set.s1.c1 (property C20):
// a CompositeController that lists the same child resource twice subscribes to its shared informer twice but keeps only the
// second subscription in its childInformers map; Stop() closes what is in the map, so one subscription is never released and the
// shared informer keeps running after the controller is gone.

import (
	"reflect"
	"testing"
	"time"

	"k8s.io/apimachinery/pkg/runtime"
	"k8s.io/apimachinery/pkg/runtime/schema"
	dynamicfake "k8s.io/client-go/dynamic/fake"
	"k8s.io/client-go/tools/record"
	"sigs.k8s.io/controller-runtime/pkg/log/zap"

	"metacontroller/pkg/apis/metacontroller/v1alpha1"
	dynamicinformer "metacontroller/pkg/dynamic/informer"
	. "metacontroller/pkg/internal/testutils/common"
	. "metacontroller/pkg/internal/testutils/dynamic/clientset"
	. "metacontroller/pkg/internal/testutils/dynamic/discovery"
	"metacontroller/pkg/logging"
)

func openSubscriptions(f *dynamicinformer.SharedInformerFactory) int64 {
	total := int64(0)
	rc := reflect.ValueOf(f).Elem().FieldByName("refCount")
	it := rc.MapRange()
	for it.Next() {
		total += it.Value().Int()
	}
	return total
}

func TestGovcReplayDuplicateChildResourceLeaksSubscription(t *testing.T) {
	logging.InitLogging(&zap.Options{})
	gvrToListKind := map[schema.GroupVersionResource]string{
		{Group: TestGroup, Version: TestVersion, Resource: TestResource}: TestResourceList,
	}
	dynClient := dynamicfake.NewSimpleDynamicClientWithCustomListKinds(runtime.NewScheme(), gvrToListKind)
	simpleClientset := NewFakeNewSimpleClientsetWithResources(NewDefaultStatusAPIResourceList())
	resourceMap := NewFakeResourceMap(simpleClientset)
	clientset := NewClientset(NewDefaultRestConfig(), resourceMap, dynClient)
	informerFactory := dynamicinformer.NewSharedInformerFactory(clientset, 5*time.Minute)

	child := v1alpha1.CompositeControllerChildResourceRule{ResourceRule: v1alpha1.ResourceRule{APIVersion: TestGroup + "/" + TestVersion, Resource: TestResource}}
	cc := &v1alpha1.CompositeController{
		Spec: v1alpha1.CompositeControllerSpec{
			ParentResource: v1alpha1.CompositeControllerParentResourceRule{ResourceRule: v1alpha1.ResourceRule{APIVersion: TestGroup + "/" + TestVersion, Resource: TestResource}},
			ChildResources: []v1alpha1.CompositeControllerChildResourceRule{child, child},
			Hooks:          &v1alpha1.CompositeControllerHooks{},
		},
	}
	cc.Name = "dup"
	pc, err := newParentController(resourceMap, clientset, informerFactory, &record.FakeRecorder{}, nil, nil, cc, 1, nil, logging.Logger)
	if err != nil {
		t.Fatalf("constructor failed: %v", err)
	}
	if n := openSubscriptions(informerFactory); n < 2 {
		t.Fatalf("expected at least 2 subscriptions after construction (parent + child), got %d", n)
	}
	pc.Start()
	pc.Stop()
	if n := openSubscriptions(informerFactory); n != 0 {
		t.Fatalf("after Stop() %d informer subscription(s) of the stopped controller are still open", n)
	}
}
