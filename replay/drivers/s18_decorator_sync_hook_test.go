package decorator

// Replay of obligation decorator.decoratorController.callHook#effect@Call.s2.c1 (properties C10, C13):
// a DecoratorController that defines only a finalize hook reaches syncHook.Call for a live, matching
// object although the sync hook is disabled (its executor is nil).

import (
	"testing"

	"k8s.io/apimachinery/pkg/apis/meta/v1/unstructured"
	"k8s.io/apimachinery/pkg/labels"

	"metacontroller/pkg/apis/metacontroller/v1alpha1"
	"metacontroller/pkg/controller/common"
	commonv2 "metacontroller/pkg/controller/common/api/v2"
	"metacontroller/pkg/hooks"
)

func TestGovcReplayDisabledSyncHook(t *testing.T) {
	defer func() {
		if r := recover(); r != nil {
			t.Fatalf("panic when only a finalize hook is configured: %v", r)
		}
	}()
	syncHook, _ := hooks.NewHook(nil, "dc", common.DecoratorController, common.SyncHook)
	finalizeHook, _ := hooks.NewHook(nil, "dc", common.DecoratorController, common.FinalizeHook)
	c := &decoratorController{
		dc: &v1alpha1.DecoratorController{Spec: v1alpha1.DecoratorControllerSpec{Hooks: &v1alpha1.DecoratorControllerHooks{}}},
		parentSelector: &decoratorSelector{
			labelSelectors:      map[string]labels.Selector{"Thing.example.com": labels.Everything()},
			annotationSelectors: map[string]labels.Selector{"Thing.example.com": labels.Everything()},
		},
		syncHook:     syncHook,
		finalizeHook: finalizeHook,
	}
	parent := &unstructured.Unstructured{Object: map[string]interface{}{
		"apiVersion": "example.com/v1", "kind": "Thing",
		"metadata": map[string]interface{}{"name": "x", "namespace": "ns"},
	}}
	resp, err := c.callHook(parent, commonv2.UniformObjectMap{}, commonv2.UniformObjectMap{})
	if err == nil && resp != nil {
		t.Fatalf("a hook answer was produced although no hook is enabled")
	}
}
