package composite

// Replay of obligation composite.parentController.syncParentObject#effect@parentController.updateParentStatus.s1.c2 (property
// C11): when the finalize hook answers `finalized: true`, syncParentObject replaces `parent` by the object that RemoveFinalizer
// re-read from the API server; updateParentStatus then stamps that object's generation as observedGeneration - not the
// generation of the parent that was sent to the hook.

import (
	"context"
	"testing"

	commonapi "metacontroller/pkg/controller/common/api"
	"metacontroller/pkg/controller/common/finalizer"
	composite "metacontroller/pkg/controller/composite/api/v1"
	. "metacontroller/pkg/internal/testutils/common"
	"metacontroller/pkg/logging"

	metav1 "k8s.io/apimachinery/pkg/apis/meta/v1"
	"k8s.io/apimachinery/pkg/apis/meta/v1/unstructured"
	"k8s.io/apimachinery/pkg/runtime"
	"k8s.io/apimachinery/pkg/runtime/schema"
	"k8s.io/apimachinery/pkg/types"
	"k8s.io/client-go/dynamic/fake"
	clientgotesting "k8s.io/client-go/testing"
	"sigs.k8s.io/controller-runtime/pkg/log/zap"
)

// replayFinalizeHook answers with a fixed status and remembers the generation of
// the parent it was shown.
type replayFinalizeHook struct {
	seenGeneration int64
	status         map[string]interface{}
}

func (h *replayFinalizeHook) IsEnabled() bool { return true }

func (h *replayFinalizeHook) Call(request commonapi.WebhookRequest, response interface{}) error {
	h.seenGeneration = request.GetRootObject().GetGeneration()
	resp := response.(*composite.CompositeHookResponse)
	resp.Status = h.status
	resp.Finalized = true
	return nil
}

func replayParent(generation int64, replicas int64) *unstructured.Unstructured {
	p := NewDefaultUnstructured()
	p.SetUID(types.UID("uid-1"))
	p.SetGeneration(generation)
	p.SetLabels(map[string]string{"app": "demo"})
	now := metav1.Now()
	p.SetDeletionTimestamp(&now)
	p.SetFinalizers([]string{"metacontroller.io/compositecontroller-replay"})
	_ = unstructured.SetNestedField(p.Object, replicas, "spec", "replicas")
	return p
}

// The informer cache still holds generation 1 of the parent, but the live
// object has had its spec edited in the meantime (generation 2). The hook is
// shown generation 1, so the status written must carry observedGeneration 1.
func TestGovcReplayObservedGenerationAfterFinalize(t *testing.T) {
	logging.InitLogging(&zap.Options{})
	gvr := schema.GroupVersionResource{Group: TestGroup, Version: TestVersion, Resource: TestResource}

	cached := replayParent(1, 1)
	live := replayParent(2, 5)

	clientFn := func(c *fake.FakeDynamicClient) {
		// What list/watch (the informer cache) sees: the stale parent.
		c.PrependReactor("list", "*", func(action clientgotesting.Action) (bool, runtime.Object, error) {
			return true, &unstructured.UnstructuredList{
				Object: map[string]interface{}{},
				Items:  []unstructured.Unstructured{*cached.DeepCopy()},
			}, nil
		})
		// What a direct GET sees: the parent after a spec edit.
		if err := c.Tracker().Update(gvr, live.DeepCopy(), TestNamespace); err != nil {
			t.Fatalf("tracker update: %v", err)
		}
	}
	simpleDynClient, _, dynClient, parentClient, parentInformer := newDefaultControllerClientsAndInformers(clientFn, true)

	hook := &replayFinalizeHook{status: map[string]interface{}{"ready": true}}
	pc := &parentController{
		cc:             newDefaultCompositeController(),
		parentResource: &DefaultApiResource,
		dynClient:      dynClient,
		parentClient:   parentClient,
		parentInformer: parentInformer,
		stopCh:         NewCh(),
		doneCh:         NewCh(),
		queue:          NewDefaultWorkQueue(),
		numWorkers:     1,
		eventRecorder:  NewFakeRecorder(),
		finalizer:      finalizer.NewManager("metacontroller.io/compositecontroller-replay", true),
		customize:      defaultCustomizeManager(),
		syncHook:       hook,
		finalizeHook:   hook,
		logger:         logging.Logger,
	}

	if err := pc.sync(defaultTestKey); err != nil {
		t.Fatalf("sync: %v", err)
	}
	if hook.seenGeneration != 1 {
		t.Fatalf("test setup: hook should have been shown generation 1, saw %d", hook.seenGeneration)
	}

	got, err := simpleDynClient.Resource(gvr).Namespace(TestNamespace).Get(context.TODO(), TestName, metav1.GetOptions{})
	if err != nil {
		t.Fatalf("get: %v", err)
	}
	status, _, _ := unstructured.NestedMap(got.Object, "status")
	if ready, _ := status["ready"].(bool); !ready {
		t.Fatalf("hook status not written: %v", status)
	}
	if og, _ := status["observedGeneration"].(int64); og != hook.seenGeneration {
		t.Errorf("status.observedGeneration = %v, want %d (generation of the parent sent to the hook); live generation is %d",
			status["observedGeneration"], hook.seenGeneration, got.GetGeneration())
	}
	// The rest of the live parent must be untouched by the status write.
	if r, _, _ := unstructured.NestedInt64(got.Object, "spec", "replicas"); r != 5 {
		t.Errorf("spec.replicas = %d, want 5", r)
	}
}
