package composite

// Replay of obligation composite.parentController.enqueueParentObject#effect@Add.s1.c2 (property C14): the selector/finalizer
// filter of enqueueParentObject is applied to *Unstructured objects only; when the deletion of a parent is delivered as a
// cache.DeletedFinalStateUnknown tombstone the filter is skipped, so a parent that neither matches the selector nor carries the
// finalizer is queued.

import (
	"testing"

	metav1 "k8s.io/apimachinery/pkg/apis/meta/v1"
	"k8s.io/apimachinery/pkg/apis/meta/v1/unstructured"
	"k8s.io/client-go/tools/cache"

	"metacontroller/pkg/controller/common/finalizer"
	. "metacontroller/pkg/internal/testutils/common"
)

func TestGovcReplayTombstoneOfForeignParentIsNotQueued(t *testing.T) {
	selector, err := metav1.LabelSelectorAsSelector(&metav1.LabelSelector{MatchLabels: map[string]string{"app": "mine"}})
	if err != nil {
		t.Fatal(err)
	}
	pc := &parentController{
		parentSelector: selector,
		finalizer:      finalizer.NewManager("metacontroller.io/compositecontroller-x", true),
		queue:          NewDefaultWorkQueue(),
	}
	foreign := &unstructured.Unstructured{Object: map[string]interface{}{
		"apiVersion": "example.com/v1", "kind": "Parent",
		"metadata": map[string]interface{}{"name": "other", "namespace": "ns", "labels": map[string]interface{}{"app": "theirs"}},
	}}
	// delivered directly it is filtered out ...
	pc.enqueueParentObject(foreign)
	if n := pc.queue.Len(); n != 0 {
		t.Fatalf("a non-matching parent was queued (%d)", n)
	}
	// ... and so it must be when its deletion is delivered as a tombstone
	pc.enqueueParentObject(cache.DeletedFinalStateUnknown{Key: "ns/other", Obj: foreign})
	if n := pc.queue.Len(); n != 0 {
		t.Fatalf("the tombstone of a parent that neither matches the selector nor carries the finalizer was queued (%d item)", n)
	}
}
