package customize

// Replay of obligation customize.Manager.GetRelatedObjects#safety@nilptr (properties C13, C15):
// a customize hook answering {"relatedResources":[null]} puts a nil rule into the decoded response;
// GetRelatedObjects (and findRelatedParents) dereference it.

import (
	"testing"

	"k8s.io/apimachinery/pkg/apis/meta/v1/unstructured"
	"k8s.io/apimachinery/pkg/runtime/schema"

	"metacontroller/pkg/controller/common"
	dynamicdiscovery "metacontroller/pkg/dynamic/discovery"
	. "metacontroller/pkg/internal/testutils/hooks"
)

func TestGovcReplayCustomizeNullRule(t *testing.T) {
	defer func() {
		if r := recover(); r != nil {
			t.Fatalf("panic on customize response with a null rule: %v", r)
		}
	}()
	kinds := make(common.GroupKindMap)
	kinds.Set(schema.GroupKind{Group: "example.com", Kind: "Thing"}, &dynamicdiscovery.APIResource{})
	rm, err := NewCustomizeManager("test", fakeEnqueueParent, &FakeCustomizableController{}, &dynClient, &dynInformers,
		make(common.InformerMap), kinds, fakeLogger, common.CompositeController)
	if err != nil {
		t.Skipf("manager not created: %v", err)
	}
	rm.customizeHook = NewSerializingExecutorStub(`{"relatedResources":[null]}`)
	parent := &unstructured.Unstructured{Object: map[string]interface{}{
		"apiVersion": "example.com/v1", "kind": "Thing",
		"metadata": map[string]interface{}{"name": "x", "namespace": "ns", "uid": "u-null-rule"},
	}}
	_, _ = rm.GetRelatedObjects(parent)
}
