package composite

// Replay of obligation composite.parentController.syncRollingUpdate#safety@nilptr.16 (property C13): with a rolling update
// strategy the children list of the latest hook answer is scanned as returned; a null entry ("children":[null]) is dereferenced
// (child.GetAPIVersion()) and the worker panics.

import (
	"testing"

	"k8s.io/apimachinery/pkg/apis/meta/v1/unstructured"

	"metacontroller/pkg/apis/metacontroller/v1alpha1"
	commonv1 "metacontroller/pkg/controller/common/api/v1"
	commonv2 "metacontroller/pkg/controller/common/api/v2"
	v1 "metacontroller/pkg/controller/composite/api/v1"
)

func TestGovcReplayRollingUpdateNullChild(t *testing.T) {
	defer func() {
		if r := recover(); r != nil {
			t.Fatalf("worker panics on a null entry in the hook's children list: %v", r)
		}
	}()
	parent := &unstructured.Unstructured{Object: map[string]interface{}{
		"apiVersion": "example.com/v1", "kind": "Parent", "metadata": map[string]interface{}{"name": "p"},
	}}
	pc := &parentController{
		updateStrategy: updateStrategyMap{"Thing.example.com": &v1alpha1.CompositeControllerChildUpdateStrategy{Method: v1alpha1.ChildUpdateRollingInPlace}},
	}
	latest := &parentRevision{
		parent:          parent,
		revision:        &v1alpha1.ControllerRevision{},
		syncResult:      &v1.CompositeHookResponse{Status: map[string]interface{}{}, Children: []*unstructured.Unstructured{nil}},
		desiredChildMap: commonv1.MakeRelativeObjectMap(parent, []*unstructured.Unstructured{nil}),
	}
	if err := pc.syncRollingUpdate([]*parentRevision{latest}, commonv2.UniformObjectMap{}); err != nil {
		t.Logf("error (acceptable): %v", err)
	}
}
