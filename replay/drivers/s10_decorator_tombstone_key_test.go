package decorator

// Replay of obligation decorator.parentQueueKey#post@ensures2 (properties C12, C14): the queue key built for
// a delete tombstone must be one that splitParentQueueKey can parse back, otherwise the key fails forever.

import (
	"testing"

	"k8s.io/apimachinery/pkg/apis/meta/v1/unstructured"
	"k8s.io/client-go/tools/cache"
)

func TestGovcReplayTombstoneKeyRoundTrip(t *testing.T) {
	parent := &unstructured.Unstructured{Object: map[string]interface{}{
		"apiVersion": "example.com/v1", "kind": "Thing",
		"metadata": map[string]interface{}{"name": "x", "namespace": "ns"},
	}}
	tomb := cache.DeletedFinalStateUnknown{Key: "ns/x", Obj: parent}
	key, err := parentQueueKey(tomb)
	if err != nil {
		return // refusing to build a key is fine
	}
	if _, _, _, _, err := splitParentQueueKey(key); err != nil {
		t.Fatalf("queue key %q built for a tombstone can never be synced: %v", key, err)
	}
}
