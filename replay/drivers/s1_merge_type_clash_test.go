package apply

// Replay of obligations apply.merge#post@ensures1..4 (property C05): a type clash between the observed value (object or
// list) and the desired / last-applied value must be reported as an error; the guard `!ok && desVal != nil` tests the zero
// value produced by the failed assertion and is therefore never true: the clash is silently dropped (and owned fields removed).

import "testing"

func TestGovcReplayMergeTypeClashIsAnError(t *testing.T) {
	cases := []struct {
		name                        string
		observed, lastApplied, desired map[string]interface{}
	}{
		{"desired list over observed object",
			map[string]interface{}{"a": map[string]interface{}{"x": int64(1), "y": int64(2)}},
			map[string]interface{}{"a": map[string]interface{}{"x": int64(1)}},
			map[string]interface{}{"a": []interface{}{int64(1), int64(2)}}},
		{"desired object over observed list",
			map[string]interface{}{"a": []interface{}{int64(1)}},
			map[string]interface{}{"a": []interface{}{int64(1)}},
			map[string]interface{}{"a": map[string]interface{}{"x": int64(1)}}},
		{"desired scalar over observed object",
			map[string]interface{}{"a": map[string]interface{}{"x": int64(1)}},
			nil,
			map[string]interface{}{"a": "text"}},
		{"last-applied list over observed object",
			map[string]interface{}{"a": map[string]interface{}{"x": int64(1)}},
			map[string]interface{}{"a": []interface{}{int64(1)}},
			map[string]interface{}{"a": map[string]interface{}{"x": int64(2)}}},
	}
	for _, c := range cases {
		got, err := Merge(c.observed, c.lastApplied, c.desired)
		if err == nil {
			t.Errorf("%s: no error; the clash was silently resolved to %v", c.name, got)
		}
	}
}
