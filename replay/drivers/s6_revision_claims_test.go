package composite

// Replay of obligation composite.parentController.syncRevisionClaims#effect@append.s2.c1 (properties C09, C07):
// syncRevisionClaims filters the names a revision may keep (drops children another - earlier, i.e. the latest - revision already
// claims, and children the latest revision no longer desires) but stores the unfiltered entry back: a child claimed by two
// revisions stays claimed by both, so "every rolling child is assigned to at most one revision" is never re-established.

import (
	"testing"

	"k8s.io/apimachinery/pkg/apis/meta/v1/unstructured"

	"metacontroller/pkg/apis/metacontroller/v1alpha1"
	commonv1 "metacontroller/pkg/controller/common/api/v1"
)

func TestGovcReplayRevisionClaimsAreNormalised(t *testing.T) {
	parent := &unstructured.Unstructured{Object: map[string]interface{}{
		"apiVersion": "example.com/v1", "kind": "Parent", "metadata": map[string]interface{}{"name": "p"},
	}}
	thing := func(name string) *unstructured.Unstructured {
		return &unstructured.Unstructured{Object: map[string]interface{}{
			"apiVersion": "example.com/v1", "kind": "Thing", "metadata": map[string]interface{}{"name": name},
		}}
	}
	pc := &parentController{
		updateStrategy: updateStrategyMap{"Thing.example.com": &v1alpha1.CompositeControllerChildUpdateStrategy{Method: v1alpha1.ChildUpdateRollingInPlace}},
	}
	desired := commonv1.MakeRelativeObjectMap(parent, []*unstructured.Unstructured{thing("a"), thing("b")})
	claims := func(names ...string) *v1alpha1.ControllerRevision {
		return &v1alpha1.ControllerRevision{Children: []v1alpha1.ControllerRevisionChildren{{APIGroup: "example.com", Kind: "Thing", Names: names}}}
	}
	// a crash between the two revision updates of a move left "a" claimed by both revisions; "gone" is no longer desired
	latest := &parentRevision{parent: parent, revision: claims("a"), desiredChildMap: desired}
	old := &parentRevision{parent: parent, revision: claims("a", "b", "gone"), desiredChildMap: desired}
	pc.syncRevisionClaims([]*parentRevision{latest, old})
	for _, ck := range old.revision.Children {
		for _, n := range ck.Names {
			if n == "a" {
				t.Errorf("child %q is still claimed by the old revision although the latest revision claims it", n)
			}
			if n == "gone" {
				t.Errorf("child %q is still claimed although the latest revision no longer desires it", n)
			}
		}
	}
}
