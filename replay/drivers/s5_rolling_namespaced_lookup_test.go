package composite

// Replay of obligation composite.parentController.shouldContinueRolling#pre@call.UniformObjectMap.FindGroupKindName
// (properties C07, C08): the rolling-update code looks children up in the observed children by the name recorded in the
// ControllerRevision (relative to the parent: the bare name for a namespaced parent), but the observed map is keyed by
// namespace/name. For a namespaced parent every child is therefore "missing": the rollout waits for ever on a child that
// exists, is up to date and passes its status checks.

import (
	"testing"

	"k8s.io/apimachinery/pkg/apis/meta/v1/unstructured"

	"metacontroller/pkg/apis/metacontroller/v1alpha1"
	"metacontroller/pkg/controller/common"
	commonv1 "metacontroller/pkg/controller/common/api/v1"
	commonv2 "metacontroller/pkg/controller/common/api/v2"
	v1 "metacontroller/pkg/controller/composite/api/v1"
	dynamicobject "metacontroller/pkg/dynamic/object"
)

func TestGovcReplayRollingGateFindsNamespacedChild(t *testing.T) {
	parent := &unstructured.Unstructured{Object: map[string]interface{}{
		"apiVersion": "example.com/v1", "kind": "Parent", "metadata": map[string]interface{}{"name": "p", "namespace": "ns"},
	}}
	thing := func(name string, v int64) *unstructured.Unstructured {
		return &unstructured.Unstructured{Object: map[string]interface{}{
			"apiVersion": "example.com/v1", "kind": "Thing",
			"metadata": map[string]interface{}{"name": name, "namespace": "ns"},
			"spec":     map[string]interface{}{"v": v},
		}}
	}
	pc := &parentController{
		updateStrategy: updateStrategyMap{"Thing.example.com": &v1alpha1.CompositeControllerChildUpdateStrategy{Method: v1alpha1.ChildUpdateRollingRecreate}},
	}
	newDesired := []*unstructured.Unstructured{thing("a", 2), thing("b", 2)}
	oldDesired := []*unstructured.Unstructured{thing("a", 1), thing("b", 1)}
	latest := &parentRevision{
		parent:          parent,
		revision:        &v1alpha1.ControllerRevision{Children: []v1alpha1.ControllerRevisionChildren{{APIGroup: "example.com", Kind: "Thing", Names: []string{"a"}}}},
		syncResult:      &v1.CompositeHookResponse{Status: map[string]interface{}{}, Children: newDesired},
		desiredChildMap: commonv1.MakeRelativeObjectMap(parent, newDesired),
	}
	old := &parentRevision{
		parent:          parent,
		revision:        &v1alpha1.ControllerRevision{Children: []v1alpha1.ControllerRevisionChildren{{APIGroup: "example.com", Kind: "Thing", Names: []string{"b"}}}},
		syncResult:      &v1.CompositeHookResponse{Status: map[string]interface{}{}, Children: oldDesired},
		desiredChildMap: commonv1.MakeRelativeObjectMap(parent, oldDesired),
	}
	// "a" exists and is up to date with the latest revision (it is what applying the desired state produces), "b" is still at
	// the old revision; there are no status checks to fail. The observed children arrive as claimChildren builds them.
	aNow, err := common.ApplyUpdate(thing("a", 2), newDesired[0])
	if err != nil {
		t.Fatal(err)
	}
	bNow, err := common.ApplyUpdate(thing("b", 1), oldDesired[1])
	if err != nil {
		t.Fatal(err)
	}
	observed := commonv2.MakeUniformObjectMap(parent, []*unstructured.Unstructured{aNow, bNow})
	if err := pc.syncRollingUpdate([]*parentRevision{latest, old}, observed); err != nil {
		t.Fatal(err)
	}
	cond, err := dynamicobject.GetStatusCondition(map[string]interface{}{"status": latest.syncResult.Status}, "Updated")
	if err != nil || cond == nil {
		t.Fatalf("no Updated condition: %v %v", cond, err)
	}
	if cond.Reason == "RolloutWaiting" {
		t.Fatalf("the rollout waits on a child that exists, is up to date and has no status checks: %s", cond.Message)
	}
}
