package composite

// Replay of obligation composite.parentController.syncRollingUpdate#pre@call.parentRevision.addChild (site 3) (property C07):
// the scan that picks the next child to move looks claims up - and records the move - under child.GetName(), while claims are
// keyed by the name relative to the parent ("namespace/name" for a cluster-scoped parent with namespaced children). For such a
// parent the child picked is never found under its claim: the latest revision gets a bogus claim for the bare name and the old
// revision keeps the real one, so the child is never actually moved.

import (
	"testing"

	"k8s.io/apimachinery/pkg/apis/meta/v1/unstructured"

	"metacontroller/pkg/apis/metacontroller/v1alpha1"
	"metacontroller/pkg/controller/common"
	commonv1 "metacontroller/pkg/controller/common/api/v1"
	commonv2 "metacontroller/pkg/controller/common/api/v2"
	v1 "metacontroller/pkg/controller/composite/api/v1"
)

func TestGovcReplayRollingMoveUsesRelativeNames(t *testing.T) {
	parent := &unstructured.Unstructured{Object: map[string]interface{}{
		"apiVersion": "example.com/v1", "kind": "ClusterParent", "metadata": map[string]interface{}{"name": "p"},
	}}
	thing := func(name string, v int64) *unstructured.Unstructured {
		return &unstructured.Unstructured{Object: map[string]interface{}{
			"apiVersion": "example.com/v1", "kind": "Thing",
			"metadata": map[string]interface{}{"name": name, "namespace": "ns"},
			"spec":     map[string]interface{}{"v": v},
		}}
	}
	pc := &parentController{
		updateStrategy: updateStrategyMap{"Thing.example.com": &v1alpha1.CompositeControllerChildUpdateStrategy{Method: v1alpha1.ChildUpdateRollingRecreate}},
	}
	newDesired := []*unstructured.Unstructured{thing("a", 2), thing("b", 2)}
	oldDesired := []*unstructured.Unstructured{thing("a", 1), thing("b", 1)}
	claims := func(names ...string) *v1alpha1.ControllerRevision {
		return &v1alpha1.ControllerRevision{Children: []v1alpha1.ControllerRevisionChildren{{APIGroup: "example.com", Kind: "Thing", Names: names}}}
	}
	// claims are relative names: for a cluster-scoped parent and namespaced children that is namespace/name
	latest := &parentRevision{parent: parent, revision: claims("ns/a"), syncResult: &v1.CompositeHookResponse{Status: map[string]interface{}{}, Children: newDesired},
		desiredChildMap: commonv1.MakeRelativeObjectMap(parent, newDesired)}
	old := &parentRevision{parent: parent, revision: claims("ns/b"), syncResult: &v1.CompositeHookResponse{Status: map[string]interface{}{}, Children: oldDesired},
		desiredChildMap: commonv1.MakeRelativeObjectMap(parent, oldDesired)}
	aNow, err := common.ApplyUpdate(thing("a", 2), newDesired[0])
	if err != nil {
		t.Fatal(err)
	}
	bNow, err := common.ApplyUpdate(thing("b", 1), oldDesired[1])
	if err != nil {
		t.Fatal(err)
	}
	observed := commonv2.MakeUniformObjectMap(parent, []*unstructured.Unstructured{aNow, bNow})
	if err := pc.syncRollingUpdate([]*parentRevision{latest, old}, observed); err != nil {
		t.Fatal(err)
	}
	// "a" is healthy on the latest revision, so "b" is the one child moved in this sync: the claim ns/b goes from old to latest
	for _, ck := range old.revision.Children {
		for _, n := range ck.Names {
			if n == "ns/b" {
				t.Errorf("the old revision still claims %q after the move", n)
			}
		}
	}
	found := false
	for _, ck := range latest.revision.Children {
		for _, n := range ck.Names {
			if n == "ns/b" {
				found = true
			}
			if n == "b" {
				t.Errorf("the latest revision got a claim for the bare name %q, which is not the child's relative name", n)
			}
		}
	}
	if !found {
		t.Errorf("the latest revision does not claim ns/b after the move: %v", latest.revision.Children)
	}
}
