package common

// Replay of obligation common.updateChildren#effect@Marshal.s1.c1 (property C02): with the server-side-apply strategy the hook's
// desired object is sent as is: a child created this way is born without a controller owner reference to the parent (the
// dynamic-apply path adds one), and an apply that omits the reference would drop one that was applied earlier.

import (
	"encoding/json"
	"testing"

	"k8s.io/apimachinery/pkg/apis/meta/v1/unstructured"
	"k8s.io/apimachinery/pkg/runtime"
	"k8s.io/apimachinery/pkg/runtime/schema"
	"k8s.io/apimachinery/pkg/types"
	dynamicfake "k8s.io/client-go/dynamic/fake"
	clienttesting "k8s.io/client-go/testing"

	"metacontroller/pkg/apis/metacontroller/v1alpha1"
	commonv2 "metacontroller/pkg/controller/common/api/v2"
	. "metacontroller/pkg/internal/testutils/common"
	. "metacontroller/pkg/internal/testutils/dynamic/clientset"
	. "metacontroller/pkg/internal/testutils/dynamic/discovery"
)

type onDelete struct{}

func (onDelete) GetMethod(string, string) v1alpha1.ChildUpdateMethod { return v1alpha1.ChildUpdateOnDelete }

func TestGovcReplayServerSideApplyCarriesOwnerReference(t *testing.T) {
	gvrToListKind := map[schema.GroupVersionResource]string{
		{Group: TestGroup, Version: TestVersion, Resource: TestResource}: TestResourceList,
	}
	dynClient := dynamicfake.NewSimpleDynamicClientWithCustomListKinds(runtime.NewScheme(), gvrToListKind)
	var bodies [][]byte
	dynClient.PrependReactor("patch", "*", func(action clienttesting.Action) (bool, runtime.Object, error) {
		pa := action.(clienttesting.PatchAction)
		if pa.GetPatchType() == types.ApplyPatchType {
			bodies = append(bodies, pa.GetPatch())
		}
		out := &unstructured.Unstructured{}
		_ = json.Unmarshal(pa.GetPatch(), &out.Object)
		return true, out, nil
	})
	simpleClientset := NewFakeNewSimpleClientsetWithResources(NewDefaultStatusAPIResourceList())
	clientset := NewClientset(NewDefaultRestConfig(), NewFakeResourceMap(simpleClientset), dynClient)

	parent := NewUnstructured(TestAPIVersion, TestKind, TestNamespace, "the-parent")
	parent.SetUID("parent-uid")
	child := NewUnstructured(TestAPIVersion, TestKind, TestNamespace, "child")
	desired := commonv2.MakeUniformObjectMap(parent, []*unstructured.Unstructured{child})
	err := ManageChildren(clientset, onDelete{}, parent, commonv2.UniformObjectMap{}, desired,
		&ApplyOptions{Strategy: ApplyStrategyServerSideApply, FieldManager: "metacontroller"})
	if err != nil {
		t.Fatal(err)
	}
	if len(bodies) != 1 {
		t.Fatalf("expected one apply patch, got %d", len(bodies))
	}
	sent := &unstructured.Unstructured{}
	if err := json.Unmarshal(bodies[0], &sent.Object); err != nil {
		t.Fatal(err)
	}
	for _, ref := range sent.GetOwnerReferences() {
		if ref.UID == parent.GetUID() && ref.Controller != nil && *ref.Controller {
			return
		}
	}
	t.Fatalf("the applied object carries no controller owner reference to the parent: ownerReferences=%v", sent.GetOwnerReferences())
}
