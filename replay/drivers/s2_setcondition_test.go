package object

// Replay of obligation object.SetCondition#post@ensures1 (property C07): when a condition of the given type already exists,
// SetCondition replaces it in the deep copy returned by unstructured.NestedSlice and returns without writing the list back:
// the parent's `Updated` condition never changes once it is present.

import "testing"

func TestGovcReplaySetConditionUpdatesExisting(t *testing.T) {
	status := map[string]interface{}{
		"conditions": []interface{}{
			map[string]interface{}{"type": "Updated", "status": "False", "reason": "RolloutProgressing"},
		},
	}
	if err := SetCondition(status, &StatusCondition{Type: "Updated", Status: "True", Reason: "OnLatestRevision"}); err != nil {
		t.Fatal(err)
	}
	cond, err := GetStatusCondition(map[string]interface{}{"status": status}, "Updated")
	if err != nil || cond == nil {
		t.Fatalf("condition lost: %v %v", cond, err)
	}
	if cond.Status != "True" || cond.Reason != "OnLatestRevision" {
		t.Fatalf("existing condition was not updated: status=%q reason=%q", cond.Status, cond.Reason)
	}
}
