package customize

// Replay of obligation customize.Manager.IsEnabled#post@ensures1 (properties C15, C13): a controller
// whose customize hook is declared without a webhook (`customize: {}`) makes Manager.IsEnabled() true
// (the Hook interface value is non-nil) although the hook is disabled, so GetRelatedObjects calls
// through a nil webhook executor.

import (
	"testing"

	"k8s.io/apimachinery/pkg/apis/meta/v1/unstructured"
	"k8s.io/apimachinery/pkg/runtime/schema"

	"metacontroller/pkg/apis/metacontroller/v1alpha1"
	"metacontroller/pkg/controller/common"
	dynamicdiscovery "metacontroller/pkg/dynamic/discovery"
)

func TestGovcReplayCustomizeHookWithoutWebhook(t *testing.T) {
	defer func() {
		if r := recover(); r != nil {
			t.Fatalf("panic for a customize hook without webhook: %v", r)
		}
	}()
	cc := &v1alpha1.CompositeController{Spec: v1alpha1.CompositeControllerSpec{
		Hooks: &v1alpha1.CompositeControllerHooks{Customize: &v1alpha1.Hook{}},
	}}
	kinds := make(common.GroupKindMap)
	kinds.Set(schema.GroupKind{Group: "example.com", Kind: "Thing"}, &dynamicdiscovery.APIResource{})
	rm, err := NewCustomizeManager("test", fakeEnqueueParent, cc, &dynClient, &dynInformers,
		make(common.InformerMap), kinds, fakeLogger, common.CompositeController)
	if err != nil {
		t.Skipf("manager not created: %v", err)
	}
	parent := &unstructured.Unstructured{Object: map[string]interface{}{
		"apiVersion": "example.com/v1", "kind": "Thing",
		"metadata": map[string]interface{}{"name": "x", "namespace": "ns", "uid": "u1"},
	}}
	related, err := rm.GetRelatedObjects(parent)
	if err != nil {
		t.Fatalf("no customize webhook is configured, expected an empty related map, got error %v", err)
	}
	if len(related) != 0 {
		t.Fatalf("expected an empty related map, got %v", related)
	}
}
