package composite

// Replay of obligation composite.parentController.syncRevisions$1#safety@nilptr.10 (property C13): a CompositeController with a
// rolling update strategy and only a finalize hook: for a live parent callHook returns (nil, nil) - the non-rolling path turns
// that into an error, the per-revision goroutine of the rolling path dereferences the nil answer: panic in a goroutine, which
// no recover() of the worker can catch - the process dies.

import (
	"testing"

	dynamicfake "k8s.io/client-go/dynamic/fake"
	"k8s.io/client-go/rest"
	"k8s.io/client-go/tools/cache"
	"sigs.k8s.io/controller-runtime/pkg/log/zap"

	"metacontroller/pkg/apis/metacontroller/v1alpha1"
	"metacontroller/pkg/client/generated/clientset/internalclientset"
	mclisters "metacontroller/pkg/client/generated/lister/metacontroller/v1alpha1"
	"metacontroller/pkg/controller/common"
	commonv2 "metacontroller/pkg/controller/common/api/v2"
	"metacontroller/pkg/hooks"
	. "metacontroller/pkg/internal/testutils/common"
	"metacontroller/pkg/logging"
)

func TestGovcReplayRollingWithoutSyncHook(t *testing.T) {
	logging.InitLogging(&zap.Options{})
	_, _, dynClient, parentClient, parentInformer := newDefaultControllerClientsAndInformers(func(*dynamicfake.FakeDynamicClient) {}, true)
	revisionIndexer := cache.NewIndexer(cache.MetaNamespaceKeyFunc, cache.Indexers{cache.NamespaceIndex: cache.MetaNamespaceIndexFunc})
	disabled, _ := hooks.NewHook(nil, "cc", common.CompositeController, common.SyncHook)
	cc := newDefaultCompositeController()
	pc := &parentController{
		cc:             cc,
		parentResource: &DefaultApiResource,
		mcClient:       internalclientset.NewForConfigOrDie(&rest.Config{Host: "http://127.0.0.1:1"}),
		dynClient:      dynClient,
		parentClient:   parentClient,
		parentInformer: parentInformer,
		revisionLister: mclisters.NewControllerRevisionLister(revisionIndexer),
		queue:          NewDefaultWorkQueue(),
		updateStrategy: updateStrategyMap{
			claimMapKey("demo.example.com", "Widget"): {Method: v1alpha1.ChildUpdateRollingInPlace},
		},
		eventRecorder: NewFakeRecorder(),
		finalizer:     DefaultFinalizerManager,
		customize:     defaultCustomizeManager(),
		syncHook:      disabled, // only a finalize hook is configured
		finalizeHook:  disabled,
		logger:        logging.Logger,
	}
	parent := NewDefaultUnstructured()
	parent.SetUID("parent-uid")
	// A panic in the per-revision goroutine cannot be recovered here: the test binary dies, which is the failure.
	res, err := pc.syncRevisions(parent, make(commonv2.UniformObjectMap), make(commonv2.UniformObjectMap))
	if err == nil {
		t.Fatalf("no hook is enabled for a live parent, yet syncRevisions answered %v", res)
	}
}
