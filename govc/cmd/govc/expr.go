package main

// Evaluation of contract expressions (Go syntax) to SMT terms over a symbolic state.

import (
	"fmt"
	"go/ast"
	"go/constant"
	"go/token"
	"go/types"
	"strconv"
	"strings"

	"golang.org/x/tools/go/ssa"
)

type Env struct {
	vars  map[string]Val
	cur   *State
	old   *State
	frame *Frame
	fn    *ssa.Function
	ctr   *FuncContract
	lets  map[string]ast.Expr
	depth int
	outer *Env // the environment outside the innermost quantifier
	loopHdr *ssa.BasicBlock // invariant of this loop: names of its header phis win over same-named phis of other loops
}

func (env *Env) clone() *Env {
	n := *env
	n.vars = map[string]Val{}
	for k, v := range env.vars {
		n.vars[k] = v
	}
	return &n
}

var tBool = types.Typ[types.Bool]
var tInt = types.Typ[types.Int]
var tString = types.Typ[types.String]
var tAny = types.NewInterfaceType(nil, nil)

// contractEnv binds header names to argument/result values.
func (e *Exec) contractEnv(fn *ssa.Function, ctr *FuncContract, args []Val, rets []Val, old, cur *State) *Env {
	env := &Env{vars: map[string]Val{}, cur: cur, old: old, fn: fn, ctr: ctr, lets: map[string]ast.Expr{}}
	for i, n := range ctr.Params {
		if n != "_" && i < len(args) {
			env.vars[n] = args[i]
		}
	}
	for i, n := range ctr.Results {
		if n != "_" && i < len(rets) {
			env.vars[n] = rets[i]
		}
	}
	for _, l := range ctr.Lets {
		env.lets[l.Name] = l.Expr
	}
	return env
}

// rootEnv: environment inside the root function body (params, loop binders, named SSA values).
func (e *Exec) rootEnv(f *Frame, cur *State) *Env {
	// walk up to the root frame values: inlined frames do not see root names, so always use root args
	env := e.contractEnv(e.rootFn, e.rootCtr, e.rootArgs, nil, e.rootEntry, cur)
	env.frame = e.rootFrame
	for k, v := range e.rootBinders {
		env.vars[k] = v
	}
	return env
}

func (e *Exec) evalBool(env *Env, ex ast.Expr) (Term, error) {
	v, err := e.eval(env, ex)
	if err != nil {
		return "", err
	}
	if e.reg.sortOf(v.T) != "Bool" {
		return "", fmt.Errorf("expression %s is not boolean (%s)", exprText(ex), v.T)
	}
	return v.Term, nil
}

func exprText(ex ast.Expr) string {
	var b strings.Builder
	_ = printExpr(&b, ex)
	return b.String()
}

func printExpr(b *strings.Builder, ex ast.Expr) error {
	switch x := ex.(type) {
	case *ast.Ident:
		b.WriteString(x.Name)
	case *ast.BasicLit:
		b.WriteString(x.Value)
	case *ast.SelectorExpr:
		printExpr(b, x.X)
		b.WriteString("." + x.Sel.Name)
	case *ast.CallExpr:
		printExpr(b, x.Fun)
		b.WriteString("(")
		for i, a := range x.Args {
			if i > 0 {
				b.WriteString(", ")
			}
			printExpr(b, a)
		}
		b.WriteString(")")
	case *ast.BinaryExpr:
		printExpr(b, x.X)
		b.WriteString(" " + x.Op.String() + " ")
		printExpr(b, x.Y)
	case *ast.UnaryExpr:
		b.WriteString(x.Op.String())
		printExpr(b, x.X)
	case *ast.ParenExpr:
		b.WriteString("(")
		printExpr(b, x.X)
		b.WriteString(")")
	case *ast.StarExpr:
		b.WriteString("*")
		printExpr(b, x.X)
	case *ast.IndexExpr:
		printExpr(b, x.X)
		b.WriteString("[")
		printExpr(b, x.Index)
		b.WriteString("]")
	default:
		fmt.Fprintf(b, "<%T>", ex)
	}
	return nil
}

func (e *Exec) refOfVal(v Val) Term {
	if e.reg.sortOf(v.T) == "Any" {
		if r, ok := e.boxOf[v.Term]; ok {
			return r
		}
		return app("ref", v.Term)
	}
	return e.asTerm(v)
}

func (e *Exec) eval(env *Env, ex ast.Expr) (Val, error) {
	switch x := ex.(type) {
	case *ast.ParenExpr:
		return e.eval(env, x.X)
	case *ast.BasicLit:
		switch x.Kind {
		case token.INT:
			n, err := strconv.ParseInt(x.Value, 0, 64)
			if err != nil {
				return Val{}, err
			}
			return Val{T: tInt, Term: IntLit(n)}, nil
		case token.STRING:
			s, err := strconv.Unquote(x.Value)
			if err != nil {
				return Val{}, err
			}
			return Val{T: tString, Term: StrLit(s)}, nil
		}
		return Val{}, fmt.Errorf("unsupported literal %s", x.Value)
	case *ast.Ident:
		return e.evalIdent(env, x)
	case *ast.SelectorExpr:
		return e.evalSelector(env, x)
	case *ast.StarExpr:
		p, err := e.eval(env, x.X)
		if err != nil {
			return Val{}, err
		}
		if deref(p.T) == nil && p.Addr == nil {
			return Val{}, fmt.Errorf("cannot dereference %s", p.T)
		}
		return e.load(env.cur, e.addrOf(p)), nil
	case *ast.UnaryExpr:
		v, err := e.eval(env, x.X)
		if err != nil {
			return Val{}, err
		}
		switch x.Op {
		case token.NOT:
			return Val{T: tBool, Term: Not(v.Term)}, nil
		case token.SUB:
			return Val{T: v.T, Term: app("-", v.Term)}, nil
		}
		return Val{}, fmt.Errorf("unsupported unary %s", x.Op)
	case *ast.BinaryExpr:
		return e.evalBinary(env, x)
	case *ast.IndexExpr:
		b, err := e.eval(env, x.X)
		if err != nil {
			return Val{}, err
		}
		switch bt := unalias(b.T).Underlying().(type) {
		case *types.Map:
			k, err := e.evalAs(env, x.Index, bt.Key())
			if err != nil {
				return Val{}, err
			}
			return Val{T: bt.Elem(), Term: e.mapGet(env.cur, bt, b.Term, k.Term)}, nil
		case *types.Slice:
			i, err := e.eval(env, x.Index)
			if err != nil {
				return Val{}, err
			}
			n, so := e.arrName(bt.Elem())
			return Val{T: bt.Elem(), Term: Select(Select(e.comp(env.cur, n, so), app("s_base", b.Term)), app("+", app("s_off", b.Term), i.Term))}, nil
		}
		return Val{}, fmt.Errorf("cannot index %s", b.T)
	case *ast.CallExpr:
		return e.evalCall(env, x)
	case *ast.CompositeLit:
		// struct literal with named fields: T{F: v, ...} (unnamed fields are zero)
		t, err := e.resolveType(env, x.Type)
		if err != nil {
			return Val{}, err
		}
		st, ok := unalias(t).Underlying().(*types.Struct)
		if !ok {
			return Val{}, fmt.Errorf("composite literal of non-struct type %s", t)
		}
		si := e.reg.structOf(t)
		args := make([]Term, st.NumFields())
		for i := 0; i < st.NumFields(); i++ {
			args[i] = e.reg.zero(st.Field(i).Type())
		}
		for _, el := range x.Elts {
			kv, ok := el.(*ast.KeyValueExpr)
			if !ok {
				return Val{}, fmt.Errorf("composite literal: only named fields are supported")
			}
			id, ok := kv.Key.(*ast.Ident)
			if !ok {
				return Val{}, fmt.Errorf("composite literal: bad field name")
			}
			found := false
			for i := 0; i < st.NumFields(); i++ {
				if st.Field(i).Name() == id.Name {
					v, err := e.evalAs(env, kv.Value, st.Field(i).Type())
					if err != nil {
						return Val{}, err
					}
					args[i] = e.asTerm(v)
					found = true
				}
			}
			if !found {
				return Val{}, fmt.Errorf("composite literal: no field %s in %s", id.Name, t)
			}
		}
		return Val{T: t, Term: app(si.ctor, args...)}, nil
	}
	return Val{}, fmt.Errorf("unsupported expression %T", ex)
}

// evalAs evaluates ex; untyped nil / literals adapt to the wanted type.
func (e *Exec) evalAs(env *Env, ex ast.Expr, want types.Type) (Val, error) {
	if id, ok := ex.(*ast.Ident); ok && id.Name == "nil" {
		return Val{T: want, Term: e.reg.zero(want)}, nil
	}
	v, err := e.eval(env, ex)
	if err != nil {
		return v, err
	}
	// box when an interface is wanted and a concrete value is given
	if e.reg.sortOf(want) == "Any" && e.reg.sortOf(v.T) != "Any" {
		return Val{T: want, Term: e.reg.box(v.T, e.asTerm(v))}, nil
	}
	return v, nil
}

func (e *Exec) evalIdent(env *Env, x *ast.Ident) (Val, error) {
	switch x.Name {
	case "true", "false":
		return Val{T: tBool, Term: x.Name}, nil
	case "nil":
		return Val{T: types.Typ[types.UntypedNil], Term: "0"}, nil
	}
	if v, ok := env.vars[x.Name]; ok {
		return v, nil
	}
	if le, ok := env.lets[x.Name]; ok {
		if env.depth > 20 {
			return Val{}, fmt.Errorf("let recursion")
		}
		env.depth++
		defer func() { env.depth-- }()
		if e.inQuant > 0 && env.outer != nil {
			// a let that does not depend on the bound variables is evaluated outside the quantifier
			root := env.outer
			for root.outer != nil {
				root = root.outer
			}
			saved := e.inQuant
			e.inQuant = 0
			v, err := e.eval(root, le)
			e.inQuant = saved
			if err == nil {
				return v, nil
			}
		}
		return e.eval(env, le)
	}
	// loop-carried SSA values (phis) and named values of the root frame
	if env.frame != nil {
		if v, ok := e.lookupSSAName(env.frame, x.Name, env.loopHdr); ok {
			return v, nil
		}
		if env.frame == e.rootFrame {
			if v, ok := e.localNames[x.Name]; ok {
				return v, nil
			}
			if a, ok := e.localAddrs[x.Name]; ok {
				return e.load(env.cur, e.addrOf(a)), nil
			}
		}
	}
	// package-level constants and variables
	if env.fn != nil && env.fn.Pkg != nil {
		if obj := env.fn.Pkg.Pkg.Scope().Lookup(x.Name); obj != nil {
			return e.objVal(env, obj)
		}
	}
	return Val{}, fmt.Errorf("unknown identifier %q", x.Name)
}

func (e *Exec) lookupSSAName(f *Frame, name string, prefer ...*ssa.BasicBlock) (Val, bool) {
	// phis by comment; parameters; free variables. Several loops may have a phi of the same name
	// (rangeindex): the phi of the preferred loop header wins, otherwise the one of the outermost
	// (lowest-numbered) block — never an arbitrary one.
	var found *Val
	foundIdx := -1
	for v, val := range f.vals {
		switch p := v.(type) {
		case *ssa.Phi:
			if p.Comment == name {
				vv := val
				if len(prefer) > 0 && prefer[0] != nil && p.Block() == prefer[0] {
					return vv, true
				}
				if found == nil || p.Block().Index < foundIdx {
					found = &vv
					foundIdx = p.Block().Index
				}
			}
		case *ssa.Parameter:
			if p.Name() == name {
				vv := val
				return vv, true
			}
		case *ssa.FreeVar:
			if p.Name() == name {
				vv := val
				return vv, true
			}
		}
	}
	if found != nil {
		return *found, true
	}
	return Val{}, false
}

func (e *Exec) objVal(env *Env, obj types.Object) (Val, error) {
	switch o := obj.(type) {
	case *types.Const:
		return e.constOf(o.Type(), o.Val()), nil
	case *types.Var:
		// package-level variable: load its current value
		pkg := e.W.prog.Package(o.Pkg())
		if pkg == nil {
			return Val{}, fmt.Errorf("no ssa package for %s", o.Pkg().Path())
		}
		g, ok := pkg.Members[o.Name()].(*ssa.Global)
		if !ok {
			return Val{}, fmt.Errorf("%s is not a global", o.Name())
		}
		if c, ok := e.globalConst(g); ok {
			return Val{T: o.Type(), Term: c}, nil
		}
		gv := e.globalVal(g)
		return e.load(env.cur, e.addrOf(gv)), nil
	}
	return Val{}, fmt.Errorf("unsupported object %s", obj)
}

func (e *Exec) constOf(t types.Type, c constant.Value) Val {
	switch c.Kind() {
	case constant.Bool:
		if constant.BoolVal(c) {
			return Val{T: t, Term: "true"}
		}
		return Val{T: t, Term: "false"}
	case constant.String:
		if b, ok := t.Underlying().(*types.Basic); ok && b.Info()&types.IsUntyped != 0 {
			t = tString
		}
		return Val{T: t, Term: StrLit(constant.StringVal(c))}
	case constant.Int:
		if b, ok := t.Underlying().(*types.Basic); ok && b.Info()&types.IsUntyped != 0 {
			t = tInt
		}
		i, _ := constant.Int64Val(c)
		return Val{T: t, Term: IntLit(i)}
	}
	return Val{T: t, Term: e.fresh("const", e.reg.sortOf(t))}
}

// importedPackages: candidate packages for an import alias used in a contract of env's package
// (the same alias may name different packages in different files).
func (e *Exec) importedPackages(env *Env, name string) []*types.Package {
	var out []*types.Package
	if env.fn == nil || env.fn.Pkg == nil {
		return nil
	}
	byPath := func(path string) *types.Package {
		for _, p := range e.W.prog.AllPackages() {
			if p.Pkg.Path() == path {
				return p.Pkg
			}
		}
		for _, imp := range env.fn.Pkg.Pkg.Imports() {
			if imp.Path() == path {
				return imp
			}
		}
		return nil
	}
	for _, path := range e.W.importAlias[env.fn.Pkg.Pkg.Path()][name] {
		if p := byPath(path); p != nil {
			out = append(out, p)
		}
	}
	for _, imp := range env.fn.Pkg.Pkg.Imports() {
		if imp.Name() == name {
			out = append(out, imp)
		}
	}
	if path, ok := wellKnownAliases[name]; ok {
		if p := byPath(path); p != nil {
			out = append(out, p)
		}
	}
	if len(out) == 0 {
		// a repository package named like that (contracts may name types of packages the code does not import)
		for _, p := range e.W.prog.AllPackages() {
			if p.Pkg.Name() == name && strings.HasPrefix(p.Pkg.Path(), modulePath+"/") {
				out = append(out, p.Pkg)
			}
		}
	}
	return out
}

func (e *Exec) importedPackage(env *Env, name string) *types.Package {
	ps := e.importedPackages(env, name)
	if len(ps) == 0 {
		return nil
	}
	return ps[0]
}

// lookupImported finds sel in any package the alias may denote.
func (e *Exec) lookupImported(env *Env, alias, sel string) types.Object {
	for _, p := range e.importedPackages(env, alias) {
		if obj := p.Scope().Lookup(sel); obj != nil {
			return obj
		}
	}
	return nil
}

var wellKnownAliases = map[string]string{
	"metav1":    "k8s.io/apimachinery/pkg/apis/meta/v1",
	"v1alpha1":  "metacontroller/pkg/apis/metacontroller/v1alpha1",
	"apierrors": "k8s.io/apimachinery/pkg/api/errors",
	"types":     "k8s.io/apimachinery/pkg/types",
}

func (e *Exec) evalSelector(env *Env, x *ast.SelectorExpr) (Val, error) {
	// package-qualified constant?
	if id, ok := x.X.(*ast.Ident); ok {
		if _, isVar := env.vars[id.Name]; !isVar {
			if _, isLet := env.lets[id.Name]; !isLet {
				if pkg := e.importedPackage(env, id.Name); pkg != nil {
					obj := e.lookupImported(env, id.Name, x.Sel.Name)
					if obj == nil {
						return Val{}, fmt.Errorf("%s.%s not found", id.Name, x.Sel.Name)
					}
					return e.objVal(env, obj)
				}
			}
		}
	}
	b, err := e.eval(env, x.X)
	if err != nil {
		return Val{}, err
	}
	return e.fieldOf(env, b, x.Sel.Name)
}

func (e *Exec) fieldOf(env *Env, b Val, name string) (Val, error) {
	// pseudo-fields of slices
	if _, ok := unalias(b.T).Underlying().(*types.Slice); ok {
		switch name {
		case "len":
			return Val{T: tInt, Term: app("s_len", b.Term)}, nil
		}
	}
	t := b.T
	var pkg *types.Package
	if env.fn != nil && env.fn.Pkg != nil {
		pkg = env.fn.Pkg.Pkg
	}
	obj, index, _ := types.LookupFieldOrMethod(t, true, pkg, name)
	if obj == nil {
		// unexported field of another package: search manually
		obj, index = lookupFieldAnyPkg(t, name)
	}
	fld, ok := obj.(*types.Var)
	if !ok || fld == nil {
		return Val{}, fmt.Errorf("no field %s in %s", name, t)
	}
	cur := b
	for _, i := range index {
		if el := deref(cur.T); el != nil || cur.Addr != nil {
			a := e.addrOf(cur)
			na := &Addr{Kind: a.Kind, Root: a.Root, Ref: a.Ref, Idx: a.Idx, Path: append(append([]int{}, a.Path...), i)}
			st := unalias(e.typeAtPath(a.Root, a.Path)).Underlying().(*types.Struct)
			ft := st.Field(i).Type()
			// load immediately unless the field is itself a struct we keep descending into
			lv := e.load(env.cur, na)
			_ = ft
			cur = lv
			continue
		}
		si := e.reg.structOf(cur.T)
		cur = Val{T: si.st.Field(i).Type(), Term: app(si.fields[i], cur.Term)}
	}
	return cur, nil
}

func lookupFieldAnyPkg(t types.Type, name string) (types.Object, []int) {
	if p := deref(t); p != nil {
		t = p
	}
	st, ok := unalias(t).Underlying().(*types.Struct)
	if !ok {
		return nil, nil
	}
	for i := 0; i < st.NumFields(); i++ {
		if st.Field(i).Name() == name {
			return st.Field(i), []int{i}
		}
	}
	for i := 0; i < st.NumFields(); i++ {
		if st.Field(i).Embedded() {
			if o, idx := lookupFieldAnyPkg(st.Field(i).Type(), name); o != nil {
				return o, append([]int{i}, idx...)
			}
		}
	}
	return nil, nil
}

func isNilIdent(ex ast.Expr) bool {
	id, ok := ex.(*ast.Ident)
	return ok && id.Name == "nil"
}

func (e *Exec) nilTest(v Val) Term {
	if v.Addr != nil && v.Addr.Null != "" {
		return v.Addr.Null
	}
	if v.Addr != nil {
		return Eq(v.Addr.Ref, "0") // an interior pointer is nil only if its base is
	}
	switch unalias(v.T).Underlying().(type) {
	case *types.Slice:
		return Eq(app("s_base", v.Term), "0")
	case *types.Interface:
		return Eq(v.Term, "nil_any")
	}
	return Eq(e.asTerm(v), "0")
}

func (e *Exec) evalBinary(env *Env, x *ast.BinaryExpr) (Val, error) {
	if x.Op == token.EQL || x.Op == token.NEQ {
		var t Term
		switch {
		case isNilIdent(x.Y):
			a, err := e.eval(env, x.X)
			if err != nil {
				return Val{}, err
			}
			t = e.nilTest(a)
		case isNilIdent(x.X):
			b, err := e.eval(env, x.Y)
			if err != nil {
				return Val{}, err
			}
			t = e.nilTest(b)
		default:
			a, err := e.eval(env, x.X)
			if err != nil {
				return Val{}, err
			}
			b, err := e.eval(env, x.Y)
			if err != nil {
				return Val{}, err
			}
			sa, sb := e.reg.sortOf(a.T), e.reg.sortOf(b.T)
			at, bt := e.asTerm(a), e.asTerm(b)
			if sa != sb {
				if sa == "Any" {
					bt = e.reg.box(b.T, bt)
				} else if sb == "Any" {
					at = e.reg.box(a.T, at)
				} else {
					return Val{}, fmt.Errorf("comparing %s with %s in %s", sa, sb, exprText(x))
				}
			}
			t = Eq(at, bt)
		}
		if x.Op == token.NEQ {
			t = Not(t)
		}
		return Val{T: tBool, Term: t}, nil
	}
	a, err := e.eval(env, x.X)
	if err != nil {
		return Val{}, err
	}
	b, err := e.eval(env, x.Y)
	if err != nil {
		return Val{}, err
	}
	so := e.reg.sortOf(a.T)
	switch x.Op {
	case token.LAND:
		return Val{T: tBool, Term: And(a.Term, b.Term)}, nil
	case token.LOR:
		return Val{T: tBool, Term: Or(a.Term, b.Term)}, nil
	case token.LSS, token.LEQ, token.GTR, token.GEQ:
		op := map[token.Token]string{token.LSS: "<", token.LEQ: "<=", token.GTR: ">", token.GEQ: ">="}[x.Op]
		return Val{T: tBool, Term: app(op, a.Term, b.Term)}, nil
	case token.ADD:
		if so == "String" {
			return Val{T: a.T, Term: app("str.++", a.Term, b.Term)}, nil
		}
		return Val{T: a.T, Term: app("+", a.Term, b.Term)}, nil
	case token.SUB:
		return Val{T: a.T, Term: app("-", a.Term, b.Term)}, nil
	case token.MUL:
		return Val{T: a.T, Term: app("*", a.Term, b.Term)}, nil
	}
	return Val{}, fmt.Errorf("unsupported operator %s", x.Op)
}

func (e *Exec) resolveType(env *Env, ex ast.Expr) (types.Type, error) {
	switch x := ex.(type) {
	case *ast.Ident:
		switch x.Name {
		case "string":
			return tString, nil
		case "int":
			return tInt, nil
		case "int64":
			return types.Typ[types.Int64], nil
		case "bool":
			return tBool, nil
		case "any":
			return tAny, nil
		}
		if env.fn != nil && env.fn.Pkg != nil {
			if obj := env.fn.Pkg.Pkg.Scope().Lookup(x.Name); obj != nil {
				if tn, ok := obj.(*types.TypeName); ok {
					return tn.Type(), nil
				}
			}
		}
	case *ast.SelectorExpr:
		if id, ok := x.X.(*ast.Ident); ok {
			if tn, ok := e.lookupImported(env, id.Name, x.Sel.Name).(*types.TypeName); ok {
				return tn.Type(), nil
			}
		}
	case *ast.StarExpr:
		t, err := e.resolveType(env, x.X)
		if err != nil {
			return nil, err
		}
		return types.NewPointer(t), nil
	case *ast.InterfaceType:
		return tAny, nil
	case *ast.MapType:
		k, err := e.resolveType(env, x.Key)
		if err != nil {
			return nil, err
		}
		v, err := e.resolveType(env, x.Value)
		if err != nil {
			return nil, err
		}
		return types.NewMap(k, v), nil
	case *ast.ArrayType:
		el, err := e.resolveType(env, x.Elt)
		if err != nil {
			return nil, err
		}
		return types.NewSlice(el), nil
	}
	return nil, fmt.Errorf("cannot resolve type %s", exprText(ex))
}

func (e *Exec) evalQuant(env *Env, q string, fl *ast.FuncLit) (Val, error) {
	nenv := env.clone()
	nenv.outer = env
	var decls []string
	var syms []string
	var sorts []string
	for _, fld := range fl.Type.Params.List {
		t, err := e.resolveType(env, fld.Type)
		if err != nil {
			return Val{}, err
		}
		for _, n := range fld.Names {
			e.nfresh++
			sym := fmt.Sprintf("q_%s_%d", n.Name, e.nfresh)
			decls = append(decls, fmt.Sprintf("(%s %s)", sym, e.reg.sortOf(t)))
			syms = append(syms, sym)
			sorts = append(sorts, e.reg.sortOf(t))
			nenv.vars[n.Name] = Val{T: t, Term: sym}
		}
	}
	if len(fl.Body.List) != 1 {
		return Val{}, fmt.Errorf("quantifier body must be a single return")
	}
	ret, ok := fl.Body.List[0].(*ast.ReturnStmt)
	if !ok || len(ret.Results) != 1 {
		return Val{}, fmt.Errorf("quantifier body must be a single return")
	}
	// definitions created while evaluating the body must not mention bound variables: evaluate inline
	saved := e.inQuant
	e.inQuant++
	body, err := e.evalBool(nenv, ret.Results[0])
	e.inQuant = saved
	if err != nil {
		return Val{}, err
	}
	qt := fmt.Sprintf("(%s (%s) %s)", q, strings.Join(decls, " "), body)
	if len(syms) == 1 && e.inQuant == 0 && (sorts[0] == "Int" || strings.Contains(body, "(forall ") || strings.Contains(body, "(exists ")) && sorts[0] != "Bool" {
		// name the quantified formula and register it for index instantiation
		qs := e.define("Q", "Bool", qt)
		sym := syms[0]
		nested := strings.Contains(body, "(forall ") || strings.Contains(body, "(exists ")
		inst := func(t Term) Term { return substSym(body, sym, t) }
		if nested {
			// re-evaluate the body with the variable bound to the term, so that inner quantifiers are
			// themselves named, given witnesses and instantiated; states are snapshotted now
			ienv := nenv.clone()
			ienv.cur = env.cur.clone()
			if env.old != nil {
				ienv.old = env.old.clone()
			}
			// names are resolved now (loop-carried values, locals and call results change later)
			e.snapshotNames(env, ienv, ret.Results[0], map[string]bool{})
			ienv.frame = nil
			var vname string
			var vtype types.Type
			for _, fld := range fl.Type.Params.List {
				vname = fld.Names[0].Name
				vtype, _ = e.resolveType(env, fld.Type)
			}
			bodyExpr := ret.Results[0]
			inst = func(t Term) Term {
				ienv.vars[vname] = Val{T: vtype, Term: t}
				r, err := e.evalBool(ienv, bodyExpr)
				if err != nil {
					return substSym(body, sym, t)
				}
				return r
			}
		}
		e.registerQuant(qs, inst, q == "forall", nested, sorts[0])
		return Val{T: tBool, Term: qs}, nil
	}
	return Val{T: tBool, Term: qt}, nil
}

// substSym replaces every occurrence of the symbol sym (as a whole token) in text by t.
func substSym(text, sym, t Term) Term {
	var b strings.Builder
	i := 0
	for i < len(text) {
		j := strings.Index(text[i:], sym)
		if j < 0 {
			b.WriteString(text[i:])
			break
		}
		j += i
		end := j + len(sym)
		before := j == 0 || text[j-1] == '(' || text[j-1] == ' ' || text[j-1] == ')'
		after := end == len(text) || text[end] == ')' || text[end] == ' ' || text[end] == '('
		b.WriteString(text[i:j])
		if before && after {
			b.WriteString(t)
		} else {
			b.WriteString(sym)
		}
		i = end
	}
	return b.String()
}

func (e *Exec) evalCall(env *Env, x *ast.CallExpr) (Val, error) {
	if id, ok := x.Fun.(*ast.Ident); ok {
		switch id.Name {
		case "old":
			nenv := *env
			nenv.cur = env.old
			return e.eval(&nenv, x.Args[0])
		case "implies", "iff":
			a, err := e.evalBool(env, x.Args[0])
			if err != nil {
				return Val{}, err
			}
			b, err := e.evalBool(env, x.Args[1])
			if err != nil {
				return Val{}, err
			}
			if id.Name == "iff" {
				return Val{T: tBool, Term: Eq(a, b)}, nil
			}
			return Val{T: tBool, Term: Implies(a, b)}, nil
		case "ite":
			c, err := e.evalBool(env, x.Args[0])
			if err != nil {
				return Val{}, err
			}
			a, err := e.eval(env, x.Args[1])
			if err != nil {
				return Val{}, err
			}
			b, err := e.evalAs(env, x.Args[2], a.T)
			if err != nil {
				return Val{}, err
			}
			return Val{T: a.T, Term: Ite(c, a.Term, b.Term)}, nil
		case "forall", "exists":
			fl, ok := x.Args[0].(*ast.FuncLit)
			if !ok {
				return Val{}, fmt.Errorf("%s needs a func literal", id.Name)
			}
			return e.evalQuant(env, id.Name, fl)
		case "len":
			v, err := e.eval(env, x.Args[0])
			if err != nil {
				return Val{}, err
			}
			switch t := unalias(v.T).Underlying().(type) {
			case *types.Slice:
				return Val{T: tInt, Term: app("s_len", v.Term)}, nil
			case *types.Map:
				return Val{T: tInt, Term: e.mapLen(env.cur, t, v.Term)}, nil
			case *types.Basic:
				return Val{T: tInt, Term: app("str.len", v.Term)}, nil
			}
			return Val{}, fmt.Errorf("len of %s", v.T)
		case "fst", "snd", "third":
			v, err := e.eval(env, x.Args[0])
			if err != nil {
				return Val{}, err
			}
			i := map[string]int{"fst": 0, "snd": 1, "third": 2}[id.Name]
			if i >= len(v.Tup) {
				return Val{}, fmt.Errorf("%s: not a tuple with enough components", id.Name)
			}
			return v.Tup[i], nil
		case "cur":
			// cur(name): the current value of a local variable (not the parameter's initial value)
			n := exprString(x.Args[0])
			if a, ok := e.localAddrs[n]; ok {
				return e.load(env.cur, e.addrOf(a)), nil
			}
			if v, ok := e.localNames[n]; ok {
				return v, nil
			}
			return Val{}, fmt.Errorf("cur(%s): no such local", n)
		case "cap":
			v, err := e.eval(env, x.Args[0])
			if err != nil {
				return Val{}, err
			}
			return Val{T: tInt, Term: app("s_cap", v.Term)}, nil
		case "has":
			m, err := e.eval(env, x.Args[0])
			if err != nil {
				return Val{}, err
			}
			mt, ok := unalias(m.T).Underlying().(*types.Map)
			if !ok {
				return Val{}, fmt.Errorf("has: not a map: %s", m.T)
			}
			k, err := e.evalAs(env, x.Args[1], mt.Key())
			if err != nil {
				return Val{}, err
			}
			return Val{T: tBool, Term: e.mapHas(env.cur, mt, m.Term, k.Term)}, nil
		case "called", "count":
			n := cleanSym(exprString(x.Args[0]))
			if id.Name == "called" {
				return Val{T: tBool, Term: e.comp(env.cur, "CALLED_"+n, "Bool")}, nil
			}
			return Val{T: tInt, Term: e.comp(env.cur, "COUNT_"+n, "Int")}, nil
		case "allocated":
			// allocated(x): the reference x is nil or was allocated before the current state (true of every Go pointer; a hint for frames)
			v, err := e.eval(env, x.Args[0])
			if err != nil {
				return Val{}, err
			}
			return Val{T: tBool, Term: app("<=", e.refOfVal(v), e.allocCtr(env.cur))}, nil
		case "cached":
			v, err := e.eval(env, x.Args[0])
			if err != nil {
				return Val{}, err
			}
			return Val{T: tBool, Term: Select(e.comp(env.cur, "CACHED", "(Array Int Bool)"), e.refOfVal(v))}, nil
		case "deq":
			a, err := e.eval(env, x.Args[0])
			if err != nil {
				return Val{}, err
			}
			b, err := e.evalAs(env, x.Args[1], a.T)
			if err != nil {
				return Val{}, err
			}
			return Val{T: tBool, Term: e.deepEqualAny(e.asAny(a.T, e.asTerm(a)), e.asAny(b.T, e.asTerm(b)))}, nil
		case "typeis":
			v, err := e.eval(env, x.Args[0])
			if err != nil {
				return Val{}, err
			}
			t, err := e.resolveType(env, x.Args[1])
			if err != nil {
				return Val{}, err
			}
			ok, _ := e.reg.unbox(t, v.Term)
			return Val{T: tBool, Term: ok}, nil
		case "unbox":
			v, err := e.eval(env, x.Args[0])
			if err != nil {
				return Val{}, err
			}
			t, err := e.resolveType(env, x.Args[1])
			if err != nil {
				return Val{}, err
			}
			_, u := e.reg.unbox(t, v.Term)
			return Val{T: t, Term: u}, nil
		case "iters":
			// iters(n): number of iterations of map-range loop n completed so far (counting the current one once its key is taken)
			n, _ := strconv.Atoi(exprText(x.Args[0]))
			in, ok := e.loopIters[n]
			if !ok {
				return Val{}, fmt.Errorf("loop %d is not a map range loop (or not reached yet)", n)
			}
			return Val{T: tInt, Term: e.comp(env.cur, in, "Int")}, nil
		case "visited":
			// visited(n, k): key k was already visited by map-range loop n
			n, _ := strconv.Atoi(exprText(x.Args[0]))
			k, err := e.eval(env, x.Args[1])
			if err != nil {
				return Val{}, err
			}
			vn, ok := e.loopVisited[n]
			if !ok {
				return Val{}, fmt.Errorf("loop %d is not a map range loop (or not reached yet)", n)
			}
			return Val{T: tBool, Term: Select(e.comp(env.cur, vn, e.compSort[vn]), k.Term)}, nil
		}
		if fv, ok := env.vars[id.Name]; ok {
			if sig, isSig := unalias(fv.T).Underlying().(*types.Signature); isSig {
				var args []Val
				for i, a := range x.Args {
					var want types.Type
					if i < sig.Params().Len() {
						want = sig.Params().At(i).Type()
					}
					var v Val
					var err error
					if want != nil {
						v, err = e.evalAs(env, a, want)
					} else {
						v, err = e.eval(env, a)
					}
					if err != nil {
						return Val{}, err
					}
					args = append(args, v)
				}
				var resT types.Type = sig.Results()
				if sig.Results().Len() == 1 {
					resT = sig.Results().At(0).Type()
				}
				if fv.Clo != nil {
					// a known closure: its (side-effect free) body evaluated in the current state
					if e.inQuant > 0 {
						return Val{}, fmt.Errorf("call of closure %s under a quantifier", id.Name)
					}
					scratch := env.cur.clone()
					e.discovery++
					nlog := len(e.wlog)
					e.inlineStack = append(e.inlineStack, fv.Clo.Fn)
					_, rr := e.runBody(fv.Clo.Fn, args, fv.Clo.Bindings, scratch, "true", nil, 1)
					e.inlineStack = e.inlineStack[:len(e.inlineStack)-1]
					e.wlog = e.wlog[:nlog]
					e.discovery--
					return e.packResult(resT, rr.rets), nil
				}
				return e.pureCallback(fv, args, resT), nil
			}
		}
		// a function of the package (or, via a predicate's scope, of another one): its body evaluated as a pure function
		if _, isSpec := specFuncs[id.Name]; !isSpec && e.W.preds[id.Name] == nil && env.fn != nil && env.fn.Pkg != nil {
			if fobj, ok := env.fn.Pkg.Pkg.Scope().Lookup(id.Name).(*types.Func); ok {
				if sf := e.W.prog.FuncValue(fobj); sf != nil && sf.Blocks != nil {
					return e.evalPureCall(env, sf, x.Args)
				}
			}
		}
		if p, ok := e.W.preds[id.Name]; ok {
			if len(x.Args) != len(p.Params) {
				return Val{}, fmt.Errorf("pred %s: wrong number of arguments", p.Name)
			}
			nenv := env.clone()
			nenv.lets = map[string]ast.Expr{}
			for i, a := range x.Args {
				v, err := e.eval(env, a)
				if err != nil {
					return Val{}, err
				}
				nenv.vars[p.Params[i]] = v
			}
			// identifiers resolve in the package that defines the predicate
			if pk := e.W.anyFuncOf(p.Pkg); pk != nil {
				nenv.fn = pk
			}
			nenv.frame = nil
			if env.depth > 30 {
				return Val{}, fmt.Errorf("pred recursion")
			}
			nenv.depth = env.depth + 1
			return e.eval(nenv, p.Expr)
		}
		if h, ok := specFuncs[id.Name]; ok {
			var args []Val
			for _, a := range x.Args {
				v, err := e.eval(env, a)
				if err != nil {
					return Val{}, err
				}
				args = append(args, v)
			}
			return h(e, env, args)
		}
		if strings.HasPrefix(id.Name, "ufb_") || strings.HasPrefix(id.Name, "ufi_") || strings.HasPrefix(id.Name, "ufs_") {
			var args []Val
			for _, a := range x.Args {
				v, err := e.eval(env, a)
				if err != nil {
					return Val{}, err
				}
				args = append(args, v)
			}
			rt := map[string]types.Type{"ufb_": tBool, "ufi_": tInt, "ufs_": tString}[id.Name[:4]]
			return e.uninterpInline(id.Name, args, rt), nil
		}
		return Val{}, fmt.Errorf("unknown spec function %s", id.Name)
	}
	// method-style observers: x.GetName()
	if sel, ok := x.Fun.(*ast.SelectorExpr); ok {
		if id, ok := sel.X.(*ast.Ident); ok {
			if _, isVar := env.vars[id.Name]; !isVar && env.lets[id.Name] == nil {
				if pkg := e.importedPackage(env, id.Name); pkg != nil {
					// pkg.Func(args): a repository function evaluated as a pure function, or a spec function by bare name
					if fobj, ok := e.lookupImported(env, id.Name, sel.Sel.Name).(*types.Func); ok {
						if sf := e.W.prog.FuncValue(fobj); sf != nil && sf.Blocks != nil && e.W.inRepo(sf) {
							return e.evalPureCall(env, sf, x.Args)
						}
					}
					if h, ok := specFuncs[sel.Sel.Name]; ok {
						var args []Val
						for _, a := range x.Args {
							v, err := e.eval(env, a)
							if err != nil {
								return Val{}, err
							}
							args = append(args, v)
						}
						return h(e, env, args)
					}
					return Val{}, fmt.Errorf("unknown spec function %s.%s", id.Name, sel.Sel.Name)
				}
			}
		}
		recv, err := e.eval(env, sel.X)
		if err != nil {
			return Val{}, err
		}
		var args []Val
		for _, a := range x.Args {
			v, err := e.eval(env, a)
			if err != nil {
				return Val{}, err
			}
			args = append(args, v)
		}
		if h, ok := observers[sel.Sel.Name]; ok {
			return h(e, env.cur, recv, args)
		}
		// a repository method with a `pure` contract: the same function symbol the executor uses for calls to it
		if obj, _, _ := types.LookupFieldOrMethod(recv.T, true, nil, sel.Sel.Name); obj != nil {
			if fobj, ok := obj.(*types.Func); ok {
				if sf := e.W.prog.FuncValue(fobj); sf != nil {
					if pc := e.W.contractFor(sf); pc != nil && pc.Pure {
						rt := methodResultType(recv.T, sel.Sel.Name)
						return e.uninterpInline("pure_"+cleanSym(funcKeyStr(pc.Pkg+"."+pc.Name)), append([]Val{recv}, args...), rt), nil
					}
				}
			}
		}
		if obj := lookupUnexportedMethod(e, recv.T, sel.Sel.Name); obj != nil {
			if pc := e.W.contractFor(obj); pc != nil && pc.Pure {
				var rt types.Type = obj.Signature.Results()
				if obj.Signature.Results().Len() == 1 {
					rt = obj.Signature.Results().At(0).Type()
				}
				return e.uninterpInline("pure_"+cleanSym(funcKeyStr(pc.Pkg+"."+pc.Name)), append([]Val{recv}, args...), rt), nil
			}
		}
		// method without an assumed contract: the same uninterpreted function the executor uses
		if rt := methodResultType(recv.T, sel.Sel.Name); rt != nil {
			rtype := types.TypeString(recv.T, nil)
			key := fmt.Sprintf("(%s).%s", rtype, sel.Sel.Name)
			if !types.IsInterface(recv.T) {
				// static method: receiver may be declared on the pointer type
				if obj, _, _ := types.LookupFieldOrMethod(recv.T, true, nil, sel.Sel.Name); obj != nil {
					if f, ok := obj.(*types.Func); ok {
						if sig, ok := f.Type().(*types.Signature); ok && sig.Recv() != nil {
							key = fmt.Sprintf("(%s).%s", types.TypeString(sig.Recv().Type(), nil), sel.Sel.Name)
						}
					}
				}
			}
			return e.uninterpInline("ext_"+cleanSym(funcKeyStr(key)), append([]Val{recv}, args...), rt), nil
		}
		return Val{}, fmt.Errorf("unknown observer method %s", sel.Sel.Name)
	}
	return Val{}, fmt.Errorf("unsupported call %s", exprText(x))
}

// uninterpInline: like uninterp but without introducing definitions (usable under quantifiers).
func (e *Exec) uninterpInline(name string, args []Val, resT types.Type) Val {
	var ts []Term
	var sorts []string
	for _, a := range args {
		ts = append(ts, e.asTerm(a))
		sorts = append(sorts, e.reg.sortOf(a.T))
	}
	e.declFun(name, sorts, e.reg.sortOf(resT))
	return Val{T: resT, Term: app(name, ts...)}
}

// deepEqualAny: reflect.DeepEqual as an uninterpreted relation on interface values (reflexive).
func (e *Exec) deepEqualAny(a, b Term) Term {
	e.declFun("deq_Any", []string{"Any", "Any"}, "Bool")
	if a == b {
		return "true"
	}
	return app("deq_Any", a, b)
}

// deepEqual: uninterpreted equivalence standing for reflect.DeepEqual on reference-like values;
// plain equality on scalars.
func (e *Exec) deepEqual(st *State, a, b Val) Term {
	so := e.reg.sortOf(a.T)
	switch so {
	case "Bool", "String", "Real":
		return Eq(a.Term, b.Term)
	}
	name := "deq_" + mangleSort(so)
	e.declFun(name, []string{so, so}, "Bool")
	return app(name, e.asTerm(a), e.asTerm(b))
}

// evalPureCall evaluates a call to a side-effect free repository function inside a contract by
// running its body symbolically on a scratch copy of the current state.
func (e *Exec) evalPureCall(env *Env, fn *ssa.Function, argExprs []ast.Expr) (Val, error) {
	nitems0 := len(e.items)
	if e.inQuant > 0 {
		// allowed only for straight-line helpers: nothing may be allocated or declared under the quantifier
		defer func() {
			for _, it := range e.items[nitems0:] {
				if it.Kind == ItemDecl && !strings.HasPrefix(it.Text, "(declare-fun") && !strings.HasSuffix(it.Sym, "!0") {
					panic(fmt.Sprintf("fatal: call of %s under a quantifier declares %s", fn.Name(), it.Sym))
				}
			}
		}()
	}
	sig := fn.Signature
	if funcHasBackEdge(fn) {
		return Val{}, fmt.Errorf("contract calls %s, which has a loop and cannot be evaluated by inlining; state its meaning explicitly", fn.Name())
	}
	var args []Val
	for i, a := range argExprs {
		var v Val
		var err error
		if i < sig.Params().Len() {
			v, err = e.evalAs(env, a, sig.Params().At(i).Type())
		} else {
			v, err = e.eval(env, a)
		}
		if err != nil {
			return Val{}, err
		}
		args = append(args, v)
	}
	var resT types.Type = sig.Results()
	if sig.Results().Len() == 1 {
		resT = sig.Results().At(0).Type()
	}
	scratch := env.cur.clone()
	e.discovery++
	nlog := len(e.wlog)
	e.inlineStack = append(e.inlineStack, fn)
	_, rr := e.runBody(fn, args, nil, scratch, "true", nil, 1)
	e.inlineStack = e.inlineStack[:len(e.inlineStack)-1]
	e.wlog = e.wlog[:nlog]
	e.discovery--
	return e.packResult(resT, rr.rets), nil
}

// lookupUnexportedMethod finds a (possibly unexported) method of a repository type by name.
func lookupUnexportedMethod(e *Exec, t types.Type, name string) *ssa.Function {
	for _, tt := range []types.Type{t, types.NewPointer(t)} {
		ms := e.W.prog.MethodSets.MethodSet(tt)
		for i := 0; i < ms.Len(); i++ {
			if ms.At(i).Obj().Name() == name {
				return e.W.prog.MethodValue(ms.At(i))
			}
		}
	}
	return nil
}

// snapshotNames resolves every free identifier of ex in env and stores the value in dst.vars, so that a
// later re-evaluation of ex sees the values of now.
func (e *Exec) snapshotNames(env, dst *Env, ex ast.Expr, seen map[string]bool) {
	ast.Inspect(ex, func(n ast.Node) bool {
		switch x := n.(type) {
		case *ast.SelectorExpr:
			// the selector's field name is not a free identifier
			e.snapshotNames(env, dst, x.X, seen)
			return false
		case *ast.Ident:
			name := x.Name
			if seen[name] {
				return true
			}
			seen[name] = true
			if _, ok := dst.vars[name]; ok {
				return true
			}
			switch name {
			case "true", "false", "nil":
				return true
			}
			if le, ok := env.lets[name]; ok {
				e.snapshotNames(env, dst, le, seen)
				return true
			}
			if env.frame == nil {
				return true
			}
			saved := e.inQuant
			e.inQuant = 0
			if v, ok := e.lookupSSAName(env.frame, name, env.loopHdr); ok {
				dst.vars[name] = v
			} else if env.frame == e.rootFrame {
				if v, ok := e.localNames[name]; ok {
					dst.vars[name] = v
				} else if a, ok := e.localAddrs[name]; ok {
					dst.vars[name] = e.load(env.cur, e.addrOf(a))
				}
			}
			e.inQuant = saved
		}
		return true
	})
}

// funcHasBackEdge: the function's CFG has a cycle (a block with a successor of smaller or equal index
// that dominates it).
func funcHasBackEdge(fn *ssa.Function) bool {
	for _, b := range fn.Blocks {
		for _, s := range b.Succs {
			if s.Dominates(b) {
				return true
			}
		}
	}
	return false
}
