package main

// Assumed contracts: dynamic listers (informer caches), label selectors, ControllerRevision lister.

import (
	"fmt"
	"go/types"
	"strings"
)

const (
	pkgDynLister = "k8s.io/client-go/dynamic/dynamiclister"
	pkgLabels    = "k8s.io/apimachinery/pkg/labels"
)

func init() {
	// Lister.Namespace(ns): a view restricted to one namespace
	specTable[fmt.Sprintf("(%s.Lister).Namespace", pkgDynLister)] = func(e *Exec, cc *callCtx) Val {
		v := e.uninterp("lister_namespace", cc.args, cc.resT)
		e.declFun("lister_ns", []string{"Any"}, "String")
		e.declFun("lister_root", []string{"Any"}, "Any")
		e.assume(And(Not(Eq(v.Term, "nil_any")), Eq(app("lister_ns", v.Term), cc.args[1].Term), Eq(app("lister_root", v.Term), cc.args[0].Term)), "Lister.Namespace(ns) is the namespace view of the same cache")
		return v
	}
	for _, recv := range []string{"Lister", "NamespaceLister"} {
		recv := recv
		specTable[fmt.Sprintf("(%s.%s).List", pkgDynLister, recv)] = func(e *Exec, cc *callCtx) Val {
			return e.listerList(cc, recv == "NamespaceLister")
		}
		specTable[fmt.Sprintf("(%s.%s).Get", pkgDynLister, recv)] = func(e *Exec, cc *callCtx) Val {
			return e.listerGet(cc, recv == "NamespaceLister")
		}
	}
	// label selectors: Matches is an uninterpreted predicate of (selector, label map content)
	specTable[fmt.Sprintf("(%s.Selector).Matches", pkgLabels)] = func(e *Exec, cc *callCtx) Val {
		return Val{T: cc.resT, Term: e.define(cc.f.prefix+"matches", "Bool", e.selMatches(cc.st, cc.args[0].Term, cc.args[1]))}
	}
	specTable[fmt.Sprintf("(%s.Selector).Empty", pkgLabels)] = func(e *Exec, cc *callCtx) Val {
		e.declFun("sel_empty", []string{"Any"}, "Bool")
		return Val{T: cc.resT, Term: app("sel_empty", cc.args[0].Term)}
	}
	specTable[pkgLabels+".Everything"] = func(e *Exec, cc *callCtx) Val {
		e.declFun("sel_everything", nil, "Any")
		e.declFun("sel_all", []string{"Any"}, "Bool")
		e.assume(And(Not(Eq("sel_everything", "nil_any")), app("sel_all", "sel_everything")), "labels.Everything() matches every label set")
		return Val{T: cc.resT, Term: "sel_everything"}
	}
	specTable[pkgMetaV1+".LabelSelectorAsSelector"] = func(e *Exec, cc *callCtx) Val {
		v := e.uninterp("ext_LabelSelectorAsSelector", cc.args, cc.resT)
		e.assume(Implies(Eq(v.Tup[1].Term, "nil_any"), Not(Eq(v.Tup[0].Term, "nil_any"))), "LabelSelectorAsSelector returns a selector or an error")
		return v
	}
	// matchesAll(sel): the selector is labels.Everything()
	specFuncs["matchesAll"] = func(e *Exec, env *Env, args []Val) (Val, error) {
		e.declFun("sel_all", []string{"Any"}, "Bool")
		return Val{T: tBool, Term: app("sel_all", args[0].Term)}, nil
	}
	// listerNs(l): the namespace a NamespaceLister is restricted to
	specFuncs["listerNs"] = func(e *Exec, env *Env, args []Val) (Val, error) {
		e.declFun("lister_ns", []string{"Any"}, "String")
		return Val{T: tString, Term: app("lister_ns", args[0].Term)}, nil
	}
	specFuncs["matches"] = func(e *Exec, env *Env, args []Val) (Val, error) {
		return Val{T: tBool, Term: e.selMatches(env.cur, args[0].Term, args[1])}, nil
	}
	// matchesLabelsOf(sel, obj): the selector matches the labels of the object
	specFuncs["matchesLabelsOf"] = func(e *Exec, env *Env, args []Val) (Val, error) {
		return Val{T: tBool, Term: e.selMatchesContent(args[0].Term, e.labelContent(env.cur, "labels", e.refOfVal(args[1])))}, nil
	}
	specFuncs["matchesAnnotationsOf"] = func(e *Exec, env *Env, args []Val) (Val, error) {
		return Val{T: tBool, Term: e.selMatchesContent(args[0].Term, e.labelContent(env.cur, "annotations", e.refOfVal(args[1])))}, nil
	}
}

// labelContent: the (domain, values) pair of the label/annotation map of object r as one term pair.
func (e *Exec) labelContent(st *State, la string, r Term) [2]Term {
	d, _ := e.omComp(st, "OM_"+la+"_d", "(Array String Bool)")
	v, _ := e.omComp(st, "OM_"+la+"_v", "(Array String String)")
	return [2]Term{Select(d, r), Select(v, r)}
}

func (e *Exec) selMatchesContent(sel Term, c [2]Term) Term {
	e.declFun("sel_matches", []string{"Any", "(Array String Bool)", "(Array String String)"}, "Bool")
	e.declFun("sel_all", []string{"Any"}, "Bool")
	return Or(app("sel_all", sel), app("sel_matches", sel, c[0], c[1]))
}

// selMatches: Selector.Matches(labels.Set(m)) for a Go map value m (labels.Set is a map[string]string,
// possibly boxed in the labels.Labels interface).
func (e *Exec) selMatches(st *State, sel Term, lv Val) Term {
	m := lv.Term
	if e.reg.sortOf(lv.T) == "Any" {
		if r, ok := e.boxOf[lv.Term]; ok {
			m = r
		} else {
			m = app("ref", lv.Term)
		}
	}
	dn, ds, vn, vs := e.mapNames(tStringMap)
	// labels.Set is a named map type with the same representation
	return e.selMatchesContent(sel, [2]Term{Select(e.comp(st, dn, ds), m), Select(e.comp(st, vn, vs), m)})
}

func (e *Exec) listerResultElem(cc *callCtx) types.Type {
	tup := resTuple(cc)
	if tup == nil {
		return nil
	}
	if sl, ok := unalias(tup.At(0).Type()).Underlying().(*types.Slice); ok {
		return sl.Elem()
	}
	return tup.At(0).Type()
}

// listerList: every returned object is a non-nil member of the informer cache (never to be written);
// a namespace lister returns only objects of its namespace.
func (e *Exec) listerList(cc *callCtx, namespaced bool) Val {
	st := cc.st
	el := e.listerResultElem(cc)
	errV := e.fresh(cc.f.prefix+"list_err", "Any")
	base := e.freshRef(st, "listed")
	n := e.fresh(cc.f.prefix+"list_len", "Int")
	e.assume(app(">=", n, "0"), "")
	an, aso := e.arrName(el)
	row := e.fresh(cc.f.prefix+"list_row", fmt.Sprintf("(Array Int %s)", e.reg.sortOf(el)))
	e.setComp(st, an, aso, Store(e.comp(st, an, aso), base, row))
	cached := e.comp(st, "CACHED", "(Array Int Bool)")
	alloc := e.compInit[allocComp]
	nsC, _ := e.omComp(st, "OM_namespace", "String")
	e.declFun("lister_ns", []string{"Any"}, "String")
	e.declFun("cache_member", []string{"Any", "Int"}, "Bool")
	root := cc.args[0].Term
	if namespaced {
		e.declFun("lister_root", []string{"Any"}, "Any")
		root = app("lister_root", cc.args[0].Term)
	}
	e.assumeForallInt("true", func(i Term) Term {
		o := Select(row, i)
		facts := []Term{Not(Eq(o, "0")), app("<=", o, alloc), app(">", o, "0"), Select(cached, o), app("cache_member", root, o)}
		if namespaced {
			facts = append(facts, Eq(Select(nsC, o), app("lister_ns", cc.args[0].Term)))
		}
		return Implies(And(app("<=", "0", i), app("<", i, n)), And(facts...))
	}, func(i Term) Term { return Select(row, i) }, "lister results are cache members (non-nil, shared, in the lister's namespace)")
	res := Val{T: cc.resT}
	res.Tup = []Val{
		{T: resTuple(cc).At(0).Type(), Term: e.define(cc.f.prefix+"listed", "Slice", app("mk_slice", base, "0", n, n))},
		{T: tError(), Term: errV},
	}
	return res
}

func (e *Exec) listerGet(cc *callCtx, namespaced bool) Val {
	st := cc.st
	errV := e.fresh(cc.f.prefix+"get_err", "Any")
	o := e.fresh(cc.f.prefix+"got", "Int")
	cached := e.comp(st, "CACHED", "(Array Int Bool)")
	alloc := e.compInit[allocComp]
	nameC, _ := e.omComp(st, "OM_name", "String")
	nsC, _ := e.omComp(st, "OM_namespace", "String")
	e.declFun("lister_ns", []string{"Any"}, "String")
	e.declFun("cache_member", []string{"Any", "Int"}, "Bool")
	root := cc.args[0].Term
	if namespaced {
		e.declFun("lister_root", []string{"Any"}, "Any")
		root = app("lister_root", cc.args[0].Term)
	}
	ok := []Term{app(">", o, "0"), app("<=", o, alloc), Select(cached, o), Eq(Select(nameC, o), cc.args[1].Term), app("cache_member", root, o)}
	if namespaced {
		ok = append(ok, Eq(Select(nsC, o), app("lister_ns", cc.args[0].Term)))
	}
	e.assume(Or(And(Eq(errV, "nil_any"), And(ok...)), And(Not(Eq(errV, "nil_any")), Eq(o, "0"))), "Lister.Get returns the cached object of that name or an error")
	res := Val{T: cc.resT}
	res.Tup = []Val{{T: resTuple(cc).At(0).Type(), Term: o}, {T: tError(), Term: errV}}
	return res
}

var _ = strings.HasPrefix
