package main

// Assumed contract of a hook call: the response struct is overwritten with an arbitrary decoded value.

import (
	"fmt"
	"go/types"
)

func init() {
	specTable["(metacontroller/pkg/hooks.Hook).Call"] = func(e *Exec, cc *callCtx) Val {
		errV := e.fresh(cc.f.prefix+"hook_err", "Any")
		// the only implementation (hookExecutorImpl.Call) calls through its webhookExecutor, which is nil
		// exactly when IsEnabled() is false (both facts are contracts checked in pkg/hooks)
		e.declFun("ext_hooks.Hook.IsEnabled", []string{"Any"}, "Bool")
		e.safety("nilptr", And(Not(Eq(cc.args[0].Term, "nil_any")), app("ext_hooks.Hook.IsEnabled", cc.args[0].Term)), cc.reach,
			"Hook.Call on a nil or disabled hook (hookExecutorImpl.Call dereferences its nil webhookExecutor)")
		cn := "REQ_HookCall"
		old := e.comp(cc.st, cn, "Int")
		e.setComp(cc.st, cn, "Int", app("+", old, "1"))
		resp := cc.args[2]
		pt, ok := e.boxType[resp.Term]
		if !ok {
			e.note("hook response of unknown dynamic type: not modelled")
			return Val{T: cc.resT, Term: errV}
		}
		e.decodeInto(cc, pt, e.boxOf[resp.Term])
		return Val{T: cc.resT, Term: errV}
	}
	specTable["(metacontroller/pkg/hooks.Hook).IsEnabled"] = func(e *Exec, cc *callCtx) Val {
		return e.uninterp("ext_hooks.Hook.IsEnabled", cc.args, cc.resT)
	}
}

// decodeInto: *ptr (of struct type) receives an arbitrary JSON-decoded value: every pointer, map and
// slice in it is nil or freshly allocated; slice elements likewise. Nothing else is known about it —
// this arbitrariness is the "for any hook response" quantifier.
func (e *Exec) decodeInto(cc *callCtx, ptrT types.Type, ref Term) {
	st := cc.st
	el := deref(ptrT)
	if el == nil {
		return
	}
	before := e.allocCtr(st)
	e.havocComp(st, allocComp)
	after := st.comps[allocComp]
	e.assume(app(">=", after, before), "")
	n, so := e.heapName(el)
	h := e.comp(st, n, so)
	cell := e.fresh(cc.f.prefix+"decoded", e.reg.sortOf(el))
	e.frameWriteRef(cc.f, st, cc.reach, ref, "hook response decoded into "+el.String())
	e.setComp(st, n, so, Store(h, ref, cell))
	e.decodedFacts(cc, el, cell, before, after, 0)
}

func (e *Exec) freshOrNil(r, before, after Term) Term {
	return Or(Eq(r, "0"), And(app(">", r, before), app("<=", r, after)))
}

func (e *Exec) decodedFacts(cc *callCtx, t types.Type, v Term, before, after Term, depth int) {
	if depth > 3 {
		return
	}
	st := cc.st
	switch u := unalias(t).Underlying().(type) {
	case *types.Struct:
		si := e.reg.structOf(t)
		for i := 0; i < u.NumFields(); i++ {
			e.decodedFacts(cc, u.Field(i).Type(), app(si.fields[i], v), before, after, depth+1)
		}
	case *types.Pointer, *types.Map:
		e.assume(e.freshOrNil(v, before, after), "decoded references are nil or freshly allocated")
		if _, ok := e.compSort["CACHED"]; ok {
			e.assume(Not(Select(e.comp(st, "CACHED", "(Array Int Bool)"), v)), "decoded objects are not cache members")
		}
	case *types.Slice:
		e.assume(And(e.freshOrNil(app("s_base", v), before, after), app(">=", app("s_len", v), "0"), app(">=", app("s_off", v), "0"), app(">=", app("s_cap", v), app("s_len", v)),
			Implies(Eq(app("s_base", v), "0"), Eq(app("s_len", v), "0"))), "decoded slices are nil or freshly allocated")
		if isRefLike(u.Elem()) {
			an, aso := e.arrName(u.Elem())
			row := Select(e.comp(st, an, aso), app("s_base", v))
			var cached Term
			if _, ok := e.compSort["CACHED"]; ok {
				cached = e.comp(st, "CACHED", "(Array Int Bool)")
			}
			e.assumeForallInt("true", func(i Term) Term {
				x := Select(row, app("+", app("s_off", v), i))
				f := e.freshOrNil(x, before, after)
				if cached != "" {
					f = And(f, Not(Select(cached, x)))
				}
				return Implies(And(app("<=", "0", i), app("<", i, app("s_len", v))), f)
			}, nil, "decoded slice elements are nil or freshly allocated")
		}
	}
}

var _ = fmt.Sprintf

func init() {
	// controller-runtime client: Get(ctx, key, obj) overwrites *obj with an arbitrary decoded object; on success the object
	// read is the one asked for (its metadata.name is key.Name) — the API-server echo assumption used everywhere else.
	get := func(e *Exec, cc *callCtx) Val {
		errV := e.fresh(cc.f.prefix+"get_err", "Any")
		if len(cc.args) < 4 {
			return Val{T: cc.resT, Term: errV}
		}
		obj := cc.args[3]
		pt, ok := e.boxType[obj.Term]
		if !ok {
			e.note("client.Get into an object of unknown dynamic type: not modelled")
			return Val{T: cc.resT, Term: errV}
		}
		ref := e.boxOf[obj.Term]
		e.decodeInto(cc, pt, ref)
		el := deref(pt)
		if el == nil {
			return Val{T: cc.resT, Term: errV}
		}
		// name of the decoded object: field ObjectMeta.Name
		n, so := e.heapName(el)
		cell := Select(e.comp(cc.st, n, so), ref)
		if st, ok := unalias(el).Underlying().(*types.Struct); ok {
			si := e.reg.structOf(el)
			for i := 0; i < st.NumFields(); i++ {
				if st.Field(i).Name() != "ObjectMeta" {
					continue
				}
				mt := st.Field(i).Type()
				if ms, ok := unalias(mt).Underlying().(*types.Struct); ok {
					msi := e.reg.structOf(mt)
					for j := 0; j < ms.NumFields(); j++ {
						if ms.Field(j).Name() == "Name" {
							key := cc.args[2]
							if ks, ok := unalias(key.T).Underlying().(*types.Struct); ok {
								ksi := e.reg.structOf(key.T)
								for k := 0; k < ks.NumFields(); k++ {
									if ks.Field(k).Name() == "Name" {
										e.assume(Implies(Eq(errV, "nil_any"), Eq(app(msi.fields[j], app(si.fields[i], cell)), app(ksi.fields[k], key.Term))),
											"client.Get returns the object that was asked for (metadata.name == key.Name)")
									}
								}
							}
						}
					}
				}
			}
		}
		return Val{T: cc.resT, Term: errV}
	}
	specTable["(sigs.k8s.io/controller-runtime/pkg/client.Reader).Get"] = get
	specTable["(sigs.k8s.io/controller-runtime/pkg/client.Client).Get"] = get
}

func init() {
	// runtime.DeepCopyJSON(m): nil for nil; otherwise a freshly allocated map with the same key set whose values are deep copies
	specTable["k8s.io/apimachinery/pkg/runtime.DeepCopyJSON"] = func(e *Exec, cc *callCtx) Val {
		st := cc.st
		src := cc.args[0].Term
		mt, ok := unalias(cc.args[0].T).Underlying().(*types.Map)
		if !ok {
			return e.havocVal(cc.resT, cc.f.prefix+"dcjson")
		}
		fresh := e.freshRef(st, "dcjson")
		e.markDeepFresh(st, fresh)
		dn, ds, vn, vs := e.mapNames(mt)
		ln, ls := e.mapLenName(mt)
		d, v, l := e.comp(st, dn, ds), e.comp(st, vn, vs), e.comp(st, ln, ls)
		e.declDcval()
		row := e.fresh(cc.f.prefix+"dcjsonrow", "(Array String Any)")
		srcRow := e.define(cc.f.prefix+"dcjsonsrc", "(Array String Any)", Select(v, src))
		e.assume(fmt.Sprintf("(forall ((kq String)) (! (= (select %s kq) (dcval (select %s kq))) :pattern ((select %s kq)) :pattern ((select %s kq))))", row, srcRow, row, srcRow), "DeepCopyJSON copies every value deeply")
		e.setComp(st, dn, ds, Store(d, fresh, Select(d, src)))
		e.setComp(st, vn, vs, Store(v, fresh, row))
		e.setComp(st, ln, ls, Store(l, fresh, Select(l, src)))
		res := e.define(cc.f.prefix+"dcjson", "Int", Ite(Eq(src, "0"), "0", fresh))
		return Val{T: cc.resT, Term: res}
	}
}

func init() {
	// generated clientset getters: pure, never nil (they return a pointer to a client struct)
	nonNil := func(name string) func(e *Exec, cc *callCtx) Val {
		return func(e *Exec, cc *callCtx) Val {
			v := e.uninterp("ext_"+name, cc.args, cc.resT)
			e.assume(Not(Eq(v.Term, "nil_any")), "generated clientset getter "+name+" returns a client")
			return v
		}
	}
	specTable["(metacontroller/pkg/client/generated/clientset/internalclientset.Interface).MetacontrollerV1alpha1"] = nonNil("mcclientset.MetacontrollerV1alpha1")
	specTable["(metacontroller/pkg/client/generated/clientset/internalclientset/typed/metacontroller/v1alpha1.ControllerRevisionsGetter).ControllerRevisions"] = nonNil("mcclientset.ControllerRevisions")
	specTable["(metacontroller/pkg/client/generated/clientset/internalclientset/typed/metacontroller/v1alpha1.MetacontrollerV1alpha1Interface).ControllerRevisions"] = nonNil("mcclientset.ControllerRevisions")
	specTable["(metacontroller/pkg/client/generated/lister/metacontroller/v1alpha1.ControllerRevisionLister).ControllerRevisions"] = nonNil("mclisters.ControllerRevisions")
}

func init() {
	// (*metav1.ObjectMeta).GetObjectMeta returns the receiver as metav1.Object: never nil for a non-nil receiver
	specTable["(*k8s.io/apimachinery/pkg/apis/meta/v1.ObjectMeta).GetObjectMeta"] = func(e *Exec, cc *callCtx) Val {
		v := e.uninterp("ext_metav1.ObjectMeta.GetObjectMeta", cc.args, cc.resT)
		e.assume(And(Not(Eq(v.Term, "nil_any")), Not(Eq(app("ref", v.Term), "0"))), "GetObjectMeta returns the (non-nil) object itself")
		return v
	}
	// generated typed client for ControllerRevisions: an effect with an arbitrary (result, err); on success the stored object is returned
	for _, verb := range []string{"Update", "Create"} {
		verb := verb
		specTable["(metacontroller/pkg/client/generated/clientset/internalclientset/typed/metacontroller/v1alpha1.ControllerRevisionInterface)."+verb] = func(e *Exec, cc *callCtx) Val {
			v := e.havocVal(cc.resT, cc.f.prefix+"cr"+verb)
			e.refBoundNew(cc.st, v)
			e.assume(Implies(Eq(v.Tup[1].Term, "nil_any"), Not(Eq(v.Tup[0].Term, "0"))), "a successful ControllerRevision "+verb+" returns the stored object")
			return v
		}
	}
}

func init() {
	// deepfresh(m): the JSON map m was produced by a deep copy in this activation (ghost; see markDeepFresh)
	specFuncs["deepfresh"] = func(e *Exec, env *Env, args []Val) (Val, error) {
		return Val{T: tBool, Term: Select(e.comp(env.cur, "DEEPFRESH", "(Array Int Bool)"), e.refOfVal(args[0]))}, nil
	}
}

func init() {
	// sameslice(a, b): a and b are the same slice value (same backing array, offset, length and capacity)
	specFuncs["sameslice"] = func(e *Exec, env *Env, args []Val) (Val, error) {
		return Val{T: tBool, Term: Eq(args[0].Term, args[1].Term)}, nil
	}
}
