package main

import (
	"fmt"
	"sort"
	"go/types"
	"regexp"
	"strings"
	"sync"
)

// TypeReg maps Go types to SMT sorts, declares struct datatypes and type tags.
type TypeReg struct {
	structs   map[string]*structInfo // key: canonical type string of the struct (named or literal)
	order     []*structInfo
	tags      map[string]int
	tagTypes  []types.Type
	tagUsed   map[int]bool
	injDecls  map[string]bool
	extraDecl []string
	typeIds   map[string]string
	usedIds   map[string]bool
}

type structInfo struct {
	id     int
	name   string // SMT sort name
	ctor   string
	fields []string // selector names
	fsorts []string
	st     *types.Struct
	typ    types.Type
}

// typeId: a short, unique, SMT-safe identifier of a Go type.
var (
	typeIdMu  sync.Mutex
	typeIdMap = map[string]string{}
	typeIdUse = map[string]bool{}
)

// The registry is process-wide so that component names agree between executors.
func (r *TypeReg) typeId(t types.Type) string {
	t = unalias(t)
	key := types.TypeString(t, nil)
	typeIdMu.Lock()
	defer typeIdMu.Unlock()
	if id, ok := typeIdMap[key]; ok {
		return id
	}
	// deterministic whatever the order in which executors meet types: the short name (package name +
	// type name) plus, for package-qualified types, a hash of the full path
	id := shortTypeName(t)
	if strings.Contains(key, ".") {
		id = fmt.Sprintf("%s_%s", id, hash36(key, 3))
	}
	for n := 2; typeIdUse[id]; n++ {
		id = fmt.Sprintf("%s_%s_%d", shortTypeName(t), hash36(key, 3), n)
	}
	typeIdUse[id] = true
	typeIdMap[key] = id
	return id
}

// hash36: n base-36 digits of the FNV-1a hash of s.
func hash36(s string, n int) string {
	h := uint64(14695981039346656037)
	for i := 0; i < len(s); i++ {
		h ^= uint64(s[i])
		h *= 1099511628211
	}
	const digits = "0123456789abcdefghijklmnopqrstuvwxyz"
	out := make([]byte, n)
	for i := range out {
		out[i] = digits[h%36]
		h /= 36
	}
	return string(out)
}

// hashDec: a decimal number below 10^n derived from s.
func hashDec(s string, n int) int {
	h := uint64(14695981039346656037)
	for i := 0; i < len(s); i++ {
		h ^= uint64(s[i])
		h *= 1099511628211
	}
	m := uint64(1)
	for i := 0; i < n; i++ {
		m *= 10
	}
	return int(h % m)
}

func newTypeReg() *TypeReg {
	return &TypeReg{structs: map[string]*structInfo{}, tags: map[string]int{}, injDecls: map[string]bool{}}
}

const preludeDatatypes = `(declare-datatypes ((Slice 0)) (((mk_slice (s_base Int) (s_off Int) (s_len Int) (s_cap Int)))))
(declare-datatypes ((Any 0)) (((nil_any) (box_ref (tag_ref Int) (ref Int)) (box_str (tag_str Int) (unbox_str String)) (box_int (tag_int Int) (unbox_int Int)) (box_bool (tag_bool Int) (unbox_bool Bool)) (box_real (tag_real Int) (unbox_real Real)) (box_slice (tag_slice Int) (unbox_slice Slice)) (box_opaque (tag_opaque Int) (unbox_opaque Int)))))
`

func unalias(t types.Type) types.Type { return types.Unalias(t) }

func (r *TypeReg) sortOf(t types.Type) string {
	t = unalias(t)
	switch u := t.Underlying().(type) {
	case *types.Basic:
		switch {
		case u.Info()&types.IsBoolean != 0:
			return "Bool"
		case u.Info()&types.IsString != 0:
			return "String"
		case u.Info()&types.IsInteger != 0:
			return "Int"
		case u.Info()&types.IsFloat != 0:
			return "Real"
		case u.Kind() == types.UnsafePointer:
			return "Int"
		case u.Kind() == types.UntypedNil:
			return "Int"
		}
		return "Int"
	case *types.Pointer, *types.Map, *types.Chan, *types.Signature:
		return "Int"
	case *types.Slice:
		return "Slice"
	case *types.Interface:
		return "Any"
	case *types.Struct:
		return r.structOf(t).name
	case *types.Array:
		return "(Array Int " + r.sortOf(u.Elem()) + ")"
	case *types.Tuple:
		return "Int"
	}
	if _, ok := t.(*types.TypeParam); ok {
		return "Any"
	}
	return "Int"
}

func shortTypeName(t types.Type) string {
	s := types.TypeString(t, func(p *types.Package) string { return p.Name() })
	var b strings.Builder
	for _, c := range s {
		if (c >= 'a' && c <= 'z') || (c >= 'A' && c <= 'Z') || (c >= '0' && c <= '9') {
			b.WriteRune(c)
		} else {
			b.WriteByte('_')
		}
	}
	s = b.String()
	if len(s) > 40 {
		s = s[:40]
	}
	return s
}

var (
	structMu   sync.Mutex
	structAll  = map[string]*structInfo{} // canonical type string -> info (process-wide: names agree between executors)
	structByNm = map[string]*structInfo{}
)

func (r *TypeReg) structOf(t types.Type) *structInfo {
	t = unalias(t)
	key := types.TypeString(t, nil)
	if _, ok := t.(*types.Named); !ok {
		key = types.TypeString(t.Underlying(), nil)
	}
	if si, ok := r.structs[key]; ok {
		return si
	}
	structMu.Lock()
	si, ok := structAll[key]
	if !ok {
		st := t.Underlying().(*types.Struct)
		// the number in the sort name is a hash of the type, not an arrival order: the same name in every run
		si = &structInfo{id: hashDec(key, 5), st: st, typ: t}
		si.name = fmt.Sprintf("S%d_%s", si.id, shortTypeName(t))
		for structByNm[si.name] != nil {
			si.id++
			si.name = fmt.Sprintf("S%d_%s", si.id, shortTypeName(t))
		}
		si.ctor = "mk" + si.name
		structAll[key] = si
		structByNm[si.name] = si
		for i := 0; i < st.NumFields(); i++ {
			si.fields = append(si.fields, fmt.Sprintf("%s_f%d_%s", si.name, i, st.Field(i).Name()))
		}
	}
	structMu.Unlock()
	r.structs[key] = si
	// field sorts (registers by-value dependencies in this executor first)
	fs := make([]string, si.st.NumFields())
	for i := 0; i < si.st.NumFields(); i++ {
		fs[i] = r.sortOf(si.st.Field(i).Type())
	}
	structMu.Lock()
	if si.fsorts == nil {
		si.fsorts = fs
	}
	structMu.Unlock()
	r.order = append(r.order, si) // appended after its by-value dependencies
	return si
}

var structNameRe = regexp.MustCompile(`S[0-9]+_[A-Za-z0-9_]+`)

// useSort makes sure every struct datatype mentioned in a sort string (possibly produced by another
// executor) is declared by this one.
func (r *TypeReg) useSort(sort string) {
	for _, nm := range structNameRe.FindAllString(sort, -1) {
		structMu.Lock()
		si := structByNm[nm]
		structMu.Unlock()
		if si != nil {
			r.structOf(si.typ)
		}
	}
}

func (r *TypeReg) datatypeDecls() string {
	var b strings.Builder
	b.WriteString(preludeDatatypes)
	for _, si := range r.order {
		if len(si.fields) == 0 {
			fmt.Fprintf(&b, "(declare-datatypes ((%s 0)) (((%s))))\n", si.name, si.ctor)
			continue
		}
		fmt.Fprintf(&b, "(declare-datatypes ((%s 0)) (((%s", si.name, si.ctor)
		for i, f := range si.fields {
			fmt.Fprintf(&b, " (%s %s)", f, si.fsorts[i])
		}
		b.WriteString("))))\n")
	}
	for _, d := range r.extraDecl {
		b.WriteString(d)
		b.WriteByte('\n')
	}
	return b.String()
}

// datatypeDeclsFor: only the struct datatypes (and inj/proj functions) whose symbols occur in `used`,
// closed under field-sort dependencies, in an order that depends on names only. Which datatypes an
// executor happens to know (it may have met a type while computing a memoised callee summary, or
// not) must not change the script.
func (r *TypeReg) datatypeDeclsFor(used map[string]bool) string {
	byName := map[string]*structInfo{}
	for _, si := range r.order {
		byName[si.name] = si
	}
	need := map[string]bool{}
	var mark func(si *structInfo)
	mark = func(si *structInfo) {
		if need[si.name] {
			return
		}
		need[si.name] = true
		for _, fs := range si.fsorts {
			for _, nm := range structNameRe.FindAllString(fs, -1) {
				if d := byName[nm]; d != nil {
					mark(d)
				}
			}
		}
	}
	for _, si := range r.order {
		hit := used[si.name] || used[si.ctor]
		for _, f := range si.fields {
			if used[f] {
				hit = true
			}
		}
		if hit {
			mark(si)
		}
	}
	var extra []string
	for _, d := range r.extraDecl {
		syms := symbolsOf(d)
		if len(syms) > 1 && used[syms[1]] {
			extra = append(extra, d)
			for _, nm := range structNameRe.FindAllString(d, -1) {
				if x := byName[nm]; x != nil {
					mark(x)
				}
			}
		}
	}
	sort.Strings(extra)
	var names []string
	for n := range need {
		names = append(names, n)
	}
	sort.Strings(names)
	var b strings.Builder
	b.WriteString(preludeDatatypes)
	done := map[string]bool{}
	var emit func(si *structInfo)
	emit = func(si *structInfo) {
		if done[si.name] {
			return
		}
		done[si.name] = true
		for _, fs := range si.fsorts {
			for _, nm := range structNameRe.FindAllString(fs, -1) {
				if d := byName[nm]; d != nil {
					emit(d)
				}
			}
		}
		if len(si.fields) == 0 {
			fmt.Fprintf(&b, "(declare-datatypes ((%s 0)) (((%s))))\n", si.name, si.ctor)
			return
		}
		fmt.Fprintf(&b, "(declare-datatypes ((%s 0)) (((%s", si.name, si.ctor)
		for i, f := range si.fields {
			fmt.Fprintf(&b, " (%s %s)", f, si.fsorts[i])
		}
		b.WriteString("))))\n")
	}
	for _, n := range names {
		emit(byName[n])
	}
	for _, d := range extra {
		b.WriteString(d)
		b.WriteByte('\n')
	}
	return b.String()
}

func (r *TypeReg) zero(t types.Type) Term {
	t = unalias(t)
	switch u := t.Underlying().(type) {
	case *types.Struct:
		si := r.structOf(t)
		if len(si.fields) == 0 {
			return si.ctor
		}
		var args []Term
		for i := 0; i < u.NumFields(); i++ {
			args = append(args, r.zero(u.Field(i).Type()))
		}
		return app(si.ctor, args...)
	case *types.Array:
		return fmt.Sprintf("((as const %s) %s)", r.sortOf(t), r.zero(u.Elem()))
	}
	return zeroOfSort(r.sortOf(t))
}

func zeroOfSort(s string) Term {
	switch s {
	case "Bool":
		return "false"
	case "Int":
		return "0"
	case "Real":
		return "0.0"
	case "String":
		return `""`
	case "Any":
		return "nil_any"
	case "Slice":
		return "(mk_slice 0 0 0 0)"
	}
	panic("zeroOfSort: " + s)
}

func mangleSort(s string) string {
	var b strings.Builder
	for _, c := range s {
		if (c >= 'a' && c <= 'z') || (c >= 'A' && c <= 'Z') || (c >= '0' && c <= '9') || c == '_' {
			b.WriteRune(c)
		}
	}
	return b.String()
}

// tagOf returns the integer type tag of a concrete dynamic type.
func (r *TypeReg) tagOf(t types.Type) int {
	t = unalias(t)
	key := types.TypeString(t, nil)
	if id, ok := r.tags[key]; ok {
		return id
	}
	// a hash of the type, not an arrival number: the same tag in every executor and every run
	id := hashDec(key, 7) + 1
	for r.tagUsed[id] {
		id++
	}
	if r.tagUsed == nil {
		r.tagUsed = map[int]bool{}
	}
	r.tagUsed[id] = true
	r.tags[key] = id
	r.tagTypes = append(r.tagTypes, t)
	return id
}

// box wraps a value of static type t into Any.
func (r *TypeReg) box(t types.Type, v Term) Term {
	t = unalias(t)
	if types.IsInterface(t) {
		return v
	}
	tag := IntLit(int64(r.tagOf(t)))
	switch r.sortOf(t) {
	case "Int":
		switch t.Underlying().(type) {
		case *types.Pointer, *types.Map, *types.Chan, *types.Signature:
			return app("box_ref", tag, v)
		}
		return app("box_int", tag, v)
	case "String":
		return app("box_str", tag, v)
	case "Bool":
		return app("box_bool", tag, v)
	case "Real":
		return app("box_real", tag, v)
	case "Slice":
		return app("box_slice", tag, v)
	}
	// struct / array by value: uninterpreted injection with a declared inverse
	s := r.sortOf(t)
	m := mangleSort(s)
	if !r.injDecls[m] {
		r.injDecls[m] = true
		r.extraDecl = append(r.extraDecl,
			fmt.Sprintf("(declare-fun inj_%s (%s) Int)", m, s),
			fmt.Sprintf("(declare-fun proj_%s (Int) %s)", m, s))
	}
	return app("box_opaque", tag, app("inj_"+m, v))
}

// isBoxed returns the condition "a holds a value of concrete type t" and the unboxed value.
func (r *TypeReg) unbox(t types.Type, a Term) (ok Term, v Term) {
	t = unalias(t)
	tag := IntLit(int64(r.tagOf(t)))
	switch r.sortOf(t) {
	case "Int":
		switch t.Underlying().(type) {
		case *types.Pointer, *types.Map, *types.Chan, *types.Signature:
			return And(app("(_ is box_ref)", a), Eq(app("tag_ref", a), tag)), app("ref", a)
		}
		return And(app("(_ is box_int)", a), Eq(app("tag_int", a), tag)), app("unbox_int", a)
	case "String":
		return And(app("(_ is box_str)", a), Eq(app("tag_str", a), tag)), app("unbox_str", a)
	case "Bool":
		return And(app("(_ is box_bool)", a), Eq(app("tag_bool", a), tag)), app("unbox_bool", a)
	case "Real":
		return And(app("(_ is box_real)", a), Eq(app("tag_real", a), tag)), app("unbox_real", a)
	case "Slice":
		return And(app("(_ is box_slice)", a), Eq(app("tag_slice", a), tag)), app("unbox_slice", a)
	}
	s := r.sortOf(t)
	m := mangleSort(s)
	if !r.injDecls[m] {
		r.injDecls[m] = true
		r.extraDecl = append(r.extraDecl,
			fmt.Sprintf("(declare-fun inj_%s (%s) Int)", m, s),
			fmt.Sprintf("(declare-fun proj_%s (Int) %s)", m, s))
	}
	return And(app("(_ is box_opaque)", a), Eq(app("tag_opaque", a), tag)), app("proj_"+m, app("unbox_opaque", a))
}

func isRefLike(t types.Type) bool {
	switch unalias(t).Underlying().(type) {
	case *types.Pointer, *types.Map, *types.Chan, *types.Signature:
		return true
	}
	return false
}

func deref(t types.Type) types.Type {
	if p, ok := unalias(t).Underlying().(*types.Pointer); ok {
		return p.Elem()
	}
	return nil
}
