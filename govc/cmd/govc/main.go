package main

import (
	"encoding/json"
	"flag"
	"fmt"
	"os"
	"path/filepath"
	"sort"
	"strconv"
	"strings"
	"sync"
	"time"
)

func main() {
	if len(os.Args) < 2 {
		fmt.Fprintln(os.Stderr, "usage: govc check|dump|list ...")
		os.Exit(2)
	}
	switch os.Args[1] {
	case "check":
		os.Exit(cmdCheck(os.Args[2:]))
	case "dump":
		os.Exit(cmdDump(os.Args[2:]))
	case "list":
		os.Exit(cmdList(os.Args[2:]))
	default:
		fmt.Fprintln(os.Stderr, "unknown command", os.Args[1])
		os.Exit(2)
	}
}

func mkScratch() string {
	base := os.Getenv("VERIF_SCRATCH")
	if base == "" {
		base = "/var/tmp"
	}
	d, err := os.MkdirTemp(base, "govc-")
	if err != nil {
		d, err = os.MkdirTemp("", "govc-")
		if err != nil {
			panic(err)
		}
	}
	return d
}

func cmdList(args []string) int {
	fs := flag.NewFlagSet("list", flag.ExitOnError)
	repo := fs.String("repo", "/repo", "")
	fs.Parse(args)
	scratch := mkScratch()
	defer os.RemoveAll(scratch)
	w, err := loadWorld(*repo, scratch, nil)
	if err != nil {
		fmt.Fprintln(os.Stderr, "load:", err)
		return 2
	}
	for _, k := range sortedKeys(w.contracts) {
		c := w.contracts[k]
		st := "ok"
		if w.fnOf[c] == nil {
			st = "MISSING"
		}
		fmt.Printf("%-70s %s props=%v\n", k, st, c.AllProps)
	}
	return 0
}

func cmdDump(args []string) int {
	fs := flag.NewFlagSet("dump", flag.ExitOnError)
	repo := fs.String("repo", "/repo", "")
	fn := fs.String("func", "", "contract name (suffix match)")
	obl := fs.String("obl", "", "print the script of obligations whose name contains this")
	solve := fs.Bool("solve", true, "solve obligations")
	timeout := fs.Int("timeout", 10, "")
	focused := fs.Bool("focused", false, "print the focused slice")
	fs.Parse(args)
	scratch := mkScratch()
	defer os.RemoveAll(scratch)
	w, err := loadWorld(*repo, scratch, nil)
	if err != nil {
		fmt.Fprintln(os.Stderr, "load:", err)
		return 2
	}
	for _, k := range sortedKeys(w.contracts) {
		if !strings.HasSuffix(k, *fn) {
			continue
		}
		c := w.contracts[k]
		rep := w.genFunc(c)
		fmt.Printf("== %s: %d obligations, gen %.2fs, err=%v\n", k, len(rep.Obls), rep.GenSeconds, rep.Err)
		if rep.Exec != nil {
			for _, n := range sortedKeys(rep.Exec.notes) {
				fmt.Println("   note:", n)
			}
		}
		if rep.Err != nil {
			continue
		}
		if *solve {
			res := solveAll(scratch, []*FuncReport{rep}, func(o *Obligation) bool { return *obl == "" || *obl == "FAILED" || strings.Contains(o.Name, *obl) }, *timeout, false)
			for _, r := range res {
				fmt.Printf("  %-14s %-60s %-8s %-10s %.2fs  %s\n", r.Status, r.O.Name, r.Res.Verdict, r.Res.Solver, r.Res.Seconds, r.O.Pos)
				if *obl != "" && (*obl != "FAILED" || r.Status == "failed" || r.Status == "undecided") {
					fmt.Println(r.Script)
					if r.Status == "failed" {
						fmt.Println(r.Res.Output)
					}
				}
			}
		} else {
			for _, o := range rep.Obls {
				fmt.Printf("  %s  [%s] %s\n", o.Name, strings.Join(o.Props, ","), o.Desc)
				if *obl != "" && strings.Contains(o.Name, *obl) {
					fmt.Println(rep.Exec.script(o, false, *focused))
				}
			}
		}
	}
	return 0
}

// ---------------------------------------------------------------------------------------------

type knownFinding struct {
	Property   string
	Obligation string
	What       string
}

func loadKnownFindings(path string) ([]knownFinding, error) {
	data, err := os.ReadFile(path)
	if err != nil {
		if os.IsNotExist(err) {
			return nil, nil
		}
		return nil, err
	}
	var out []knownFinding
	for _, line := range strings.Split(string(data), "\n") {
		line = strings.TrimSpace(line)
		if !strings.HasPrefix(line, "finding:") {
			continue
		}
		kf := knownFinding{}
		rest := strings.TrimSpace(strings.TrimPrefix(line, "finding:"))
		for _, f := range strings.Fields(rest) {
			if strings.HasPrefix(f, "property=") {
				kf.Property = strings.TrimPrefix(f, "property=")
			} else if strings.HasPrefix(f, "obligation=") {
				kf.Obligation = strings.TrimPrefix(f, "obligation=")
			}
		}
		if i := strings.Index(rest, "input="); i >= 0 {
			kf.What = rest[i+len("input="):]
		}
		out = append(out, kf)
	}
	return out, nil
}

type Evidence struct {
	PropertyID  string         `json:"property_id"`
	Tier        string         `json:"tier"`
	Seed        int            `json:"seed"`
	Level       string         `json:"level"`
	Coverage    map[string]any `json:"coverage"`
	Assumptions []string       `json:"assumptions"`
	WallS       float64        `json:"wall_s"`
	Violations  int            `json:"violations"`
}

func cmdCheck(args []string) int {
	fs := flag.NewFlagSet("check", flag.ExitOnError)
	repo := fs.String("repo", "/repo", "")
	verif := fs.String("verif", "/verif", "")
	prop := fs.String("property", "", "")
	tier := fs.String("tier", "quick", "")
	fs.Parse(args)
	if t := os.Getenv("VERIF_TIER"); t != "" {
		*tier = t
	}
	seed := 0
	if s := os.Getenv("VERIF_SEED"); s != "" {
		seed, _ = strconv.Atoi(s)
	}
	t0 := time.Now()
	scratch := mkScratch()
	defer os.RemoveAll(scratch)
	w, err := loadWorld(*repo, scratch, nil)
	if err != nil {
		fmt.Fprintln(os.Stderr, "ENGINE-FAULT load:", err)
		return 2
	}
	loadS := time.Since(t0).Seconds()
	known, err := loadKnownFindings(filepath.Join(*verif, "known_findings.txt"))
	if err != nil {
		fmt.Fprintln(os.Stderr, "ENGINE-FAULT known findings:", err)
		return 2
	}
	// functions under contract for this property
	var ctrs []*FuncContract
	for _, k := range sortedKeys(w.contracts) {
		c := w.contracts[k]
		if hasProp(c.AllProps, *prop) {
			ctrs = append(ctrs, c)
		}
	}
	if len(ctrs) == 0 {
		fmt.Fprintf(os.Stderr, "ENGINE-FAULT no contracts for property %s\n", *prop)
		return 2
	}
	reps := make([]*FuncReport, len(ctrs))
	var wg sync.WaitGroup
	gsem := make(chan struct{}, 12)
	for i, c := range ctrs {
		wg.Add(1)
		go func(i int, c *FuncContract) {
			defer wg.Done()
			gsem <- struct{}{}
			defer func() { <-gsem }()
			reps[i] = w.genFunc(c)
		}(i, c)
	}
	wg.Wait()
	genS := time.Since(t0).Seconds() - loadS
	timeout := 10
	all := false
	if *tier == "thorough" {
		timeout = 60
		all = true
	}
	results := solveAll(scratch, reps, func(o *Obligation) bool { return hasProp(o.Props, *prop) }, timeout, all)

	replayDir := filepath.Join(*verif, "replays", *prop)
	os.RemoveAll(replayDir)
	violations := 0
	faults := 0
	var lines []string
	nObl, nDis, nCover, nCoverOK, nCoverWeak := 0, 0, 0, 0, 0
	byBackend := map[string]int{}
	solverSecs := 0.0
	var samples []any
	var knownMatched []string
	var slow []string
	isKnown := func(name string) *knownFinding {
		for i := range known {
			if known[i].Property == *prop && known[i].Obligation == name {
				return &known[i]
			}
		}
		return nil
	}
	report := func(o *Obligation, why string, r *OblResult) {
		os.MkdirAll(replayDir, 0o755)
		path := filepath.Join(replayDir, sanitizeFile(o.Name)+".json")
		rec := map[string]any{"property": *prop, "obligation": o.Name, "kind": o.Kind, "function": o.Func, "position": o.Pos,
			"clause": o.Clause, "description": o.Desc, "reason": why}
		if r != nil {
			rec["solver_verdict"] = r.Res.Verdict
			rec["solver"] = r.Res.Solver
			rec["solver_output"] = truncate(r.Res.Output, 20000)
			rec["smt_script"] = r.Script
			rec["all_solvers"] = r.Res.All
		}
		data, _ := json.MarshalIndent(rec, "", " ")
		os.WriteFile(path, data, 0o644)
		violations++
		lines = append(lines, fmt.Sprintf("VIOLATION property=%s replay=%s obligation=%s (%s) %s no-failing-input-found", *prop, path, o.Name, o.Pos, why))
	}
	for _, rep := range reps {
		if rep.Err != nil {
			if rep.Fn == nil {
				// function under contract disappeared
				o := &Obligation{Name: funcKeyStr(rep.Ctr.Pkg+"."+rep.Ctr.Name) + "#exists", Kind: "exists", Func: rep.Ctr.Name, Desc: rep.Err.Error()}
				if kf := isKnown(o.Name); kf != nil {
					knownMatched = append(knownMatched, o.Name)
					lines = append(lines, fmt.Sprintf("KNOWN-FINDING: property=%s %s %s", *prop, o.Name, kf.What))
				} else {
					report(o, "function under contract not found: "+rep.Err.Error(), nil)
				}
				continue
			}
			if strings.Contains(rep.Err.Error(), "engine:") && !strings.Contains(rep.Err.Error(), "fatal: contract of") {
				fmt.Fprintf(os.Stderr, "ENGINE-FAULT %s: %v\n", rep.Ctr.Name, rep.Err)
				faults++
				continue
			}
			// the contract can no longer be evaluated against the code (a call, loop, parameter or local it is keyed to is gone):
			// on the unchanged tree every contract evaluates, so this is reported as a failed obligation (DESIGN 2.7)
			o := &Obligation{Name: funcKeyStr(rep.Ctr.Pkg+"."+rep.Ctr.Name) + "#contract", Kind: "contract", Func: rep.Ctr.Name, Desc: rep.Err.Error(), Props: rep.Ctr.AllProps}
			if kf := isKnown(o.Name); kf != nil {
				knownMatched = append(knownMatched, o.Name)
				lines = append(lines, fmt.Sprintf("KNOWN-FINDING: property=%s %s %s", *prop, o.Name, kf.What))
			} else {
				report(o, "the contract no longer applies to the code: "+truncate(rep.Err.Error(), 300), nil)
			}
		}
	}
	for _, r := range results {
		o := r.O
		if o.ExpectSat {
			nCover++
			switch r.Status {
			case "cover-ok":
				nCoverOK++
			case "cover-ok-weak":
				nCoverWeak++
			case "cover-failed":
				if kf := isKnown(o.Name); kf != nil {
					knownMatched = append(knownMatched, o.Name)
					lines = append(lines, fmt.Sprintf("KNOWN-FINDING: property=%s %s %s", *prop, o.Name, kf.What))
				} else {
					report(o, "vacuity: "+o.Desc+" — the site/precondition is unreachable/unsatisfiable in the model", r)
				}
			default:
				// undecided cover: not an alarm, recorded
				lines = append(lines, fmt.Sprintf("note: cover check %s undecided (%s)", o.Name, r.Res.Verdict))
			}
			continue
		}
		if kf := isKnown(o.Name); kf != nil {
			if r.Status == "discharged" {
				lines = append(lines, fmt.Sprintf("note: known finding %s no longer reproduces (obligation discharged); remove it from known_findings.txt", o.Name))
				nObl++
				nDis++
			} else {
				knownMatched = append(knownMatched, o.Name)
				lines = append(lines, fmt.Sprintf("KNOWN-FINDING: property=%s %s %s", *prop, o.Name, kf.What))
			}
			continue
		}
		nObl++
		solverSecs += r.Res.Seconds
		switch r.Status {
		case "discharged":
			nDis++
			byBackend[r.Res.Solver]++
			if r.Res.Seconds > 3 || strings.Contains(r.Res.Solver, "(2nd)") {
				lines = append(lines, fmt.Sprintf("note: slow obligation %s (%.1fs, %s)", o.Name, r.Res.Seconds, r.Res.Solver))
				slow = append(slow, fmt.Sprintf("%s %.1fs %s", o.Name, r.Res.Seconds, r.Res.Solver))
			}
			if len(samples) < 6 {
				samples = append(samples, map[string]any{"obligation": o.Name, "kind": o.Kind, "function": o.Func, "clause": o.Clause, "solver": r.Res.Solver, "seconds": r.Res.Seconds, "at": o.Pos})
			}
		case "failed":
			report(o, "obligation refuted by "+r.Res.Solver+": "+o.Desc, r)
		case "disagree":
			fmt.Fprintf(os.Stderr, "ENGINE-FAULT solver disagreement on %s: %v\n", o.Name, r.Res.All)
			faults++
		default:
			report(o, "obligation not discharged ("+r.Res.Verdict+"): "+o.Desc, r)
		}
	}
	sort.Strings(lines)
	for _, l := range lines {
		fmt.Println(l)
	}
	// evidence
	var funcs []any
	assumed := map[string]bool{}
	abstracted := map[string]bool{}
	notes := map[string]bool{}
	for _, rep := range reps {
		if rep.Fn == nil {
			continue
		}
		funcs = append(funcs, map[string]any{"function": rep.Ctr.Pkg + "." + rep.Ctr.Name, "at": w.prog.Fset.Position(rep.Fn.Pos()).String(), "ssa_instructions": rep.NInstr, "obligations_generated": len(rep.Obls), "gen_seconds": rep.GenSeconds})
		if rep.Exec != nil {
			for k := range rep.Exec.assumes {
				assumed[k] = true
			}
			for k := range rep.Exec.abstracted {
				abstracted[k] = true
			}
			for k := range rep.Exec.notes {
				notes[k] = true
			}
		}
	}
	trusted := []string{"govc VC generator (this repository, unverified)", "go/ssa construction (golang.org/x/tools v0.29.0)", "solvers: z3 4.8.12, z3 5.1.0, cvc5 1.0"}
	for _, k := range sortedKeys(assumed) {
		trusted = append(trusted, "assumed contract: "+k)
	}
	ev := Evidence{PropertyID: *prop, Tier: *tier, Seed: seed, Level: "proof", WallS: time.Since(t0).Seconds(), Violations: violations}
	ev.Coverage = map[string]any{
		"obligations": nObl, "discharged": nDis,
		"checker_cmd":  fmt.Sprintf("bin/govc check --property %s --tier %s", *prop, *tier),
		"trusted_base": trusted,
		"samples":      samples,
		"functions_under_contract": funcs,
		"by_backend":   byBackend,
		"solver_seconds": solverSecs,
		"cover_checks": map[string]int{"total": nCover, "sat": nCoverOK, "sat_without_quantified_assumptions": nCoverWeak},
		"abstracted_functions": sortedKeys(abstracted),
		"engine_notes": sortedKeys(notes),
		"known_findings_matched": knownMatched,
		"slow_obligations": slow,
		"load_seconds": loadS, "gen_seconds": genS,
	}
	ev.Assumptions = []string{
		"integers are mathematical (no wrap-around); termination is not proved",
		"external dependencies behave as their assumed contracts state (listed under coverage.trusted_base)",
		"external functions without an assumed contract are pure functions of their arguments (entries 'default-pure:')",
		"reflect.DeepEqual is abstracted as an uninterpreted equivalence",
		"goroutines are not interleaved; operations under a mutex are atomic",
	}
	if nObl == 0 || faults > 0 {
		if nObl == 0 {
			fmt.Fprintf(os.Stderr, "ENGINE-FAULT property %s generated no obligations\n", *prop)
		}
		writeEvidence(*verif, *prop, &ev)
		return 2
	}
	writeEvidence(*verif, *prop, &ev)
	fmt.Printf("property %s: %d/%d obligations discharged, %d cover checks (%d sat, %d sat without quantified assumptions), %d known findings, %d violations, %.1fs\n",
		*prop, nDis, nObl, nCover, nCoverOK, nCoverWeak, len(knownMatched), violations, time.Since(t0).Seconds())
	if violations > 0 {
		return 1
	}
	return 0
}

func truncate(s string, n int) string {
	if len(s) > n {
		return s[:n] + "...[truncated]"
	}
	return s
}

func writeEvidence(verif, prop string, ev *Evidence) {
	os.MkdirAll(filepath.Join(verif, "evidence"), 0o755)
	data, _ := json.MarshalIndent(ev, "", " ")
	os.WriteFile(filepath.Join(verif, "evidence", prop+".json"), data, 0o644)
}
