package main

import (
	"fmt"
	"go/ast"
	"go/types"
	"os"
	"path/filepath"
	"strconv"
	"strings"
	"sync"

	"golang.org/x/tools/go/packages"
	"golang.org/x/tools/go/ssa"
	"golang.org/x/tools/go/ssa/ssautil"
)

// World: the loaded program plus all contracts.
type World struct {
	repo        string
	scratch     string
	prog        *ssa.Program
	pkgs        []*packages.Package
	ssaPkgs     []*ssa.Package
	contracts   map[string]*FuncContract // key: pkgpath + "." + Name
	byFn        map[*ssa.Function]*FuncContract
	fnOf        map[*FuncContract]*ssa.Function
	importAlias map[string]map[string][]string // pkg path -> alias -> import paths (aliases may differ per file)
	loadSecs    float64
	preds       map[string]*Pred
	pmMu        sync.Mutex
	paramMods   map[string][]paramMod
	compSorts   map[string]string
}

const modulePath = "metacontroller"

func (w *World) inRepo(fn *ssa.Function) bool {
	if fn.Pkg != nil {
		return strings.HasPrefix(fn.Pkg.Pkg.Path(), modulePath+"/")
	}
	// closures and instantiations: look at the parent / origin
	if p := fn.Parent(); p != nil {
		return w.inRepo(p)
	}
	if o := fn.Origin(); o != nil && o != fn {
		return w.inRepo(o)
	}
	return false
}

func (w *World) contractFor(fn *ssa.Function) *FuncContract {
	return w.byFn[fn]
}

// loadWorld loads the packages that hold contracts (plus extras) from the repo's working tree.
func loadWorld(repo, scratch string, extraPkgs []string) (*World, error) {
	w := &World{repo: repo, scratch: scratch, contracts: map[string]*FuncContract{}, byFn: map[*ssa.Function]*FuncContract{},
		fnOf: map[*FuncContract]*ssa.Function{}, importAlias: map[string]map[string][]string{}, preds: map[string]*Pred{}}
	files, err := findContractFiles(repo)
	if err != nil {
		return nil, err
	}
	pkgSet := map[string]bool{}
	var all []*FuncContract
	for _, f := range files {
		rel, _ := filepath.Rel(repo, filepath.Dir(f))
		pkgPath := modulePath + "/" + filepath.ToSlash(rel)
		cs, err := parseContractFile(f, pkgPath, w.preds)
		if err != nil {
			return nil, err
		}
		all = append(all, cs...)
		pkgSet[pkgPath] = true
	}
	for _, p := range extraPkgs {
		pkgSet[p] = true
	}
	if len(pkgSet) == 0 {
		return nil, fmt.Errorf("no contract files found under %s/pkg", repo)
	}
	// scratch copy of go.mod/go.sum so that the repo is never written
	modfile := filepath.Join(scratch, "go.mod")
	for _, n := range []string{"go.mod", "go.sum"} {
		data, err := os.ReadFile(filepath.Join(repo, n))
		if err != nil {
			return nil, err
		}
		if err := os.WriteFile(filepath.Join(scratch, n), data, 0o644); err != nil {
			return nil, err
		}
	}
	patterns := []string{"./pkg/..."}
	cfg := &packages.Config{
		Mode: packages.NeedName | packages.NeedFiles | packages.NeedCompiledGoFiles | packages.NeedImports |
			packages.NeedTypes | packages.NeedTypesSizes | packages.NeedSyntax | packages.NeedTypesInfo,
		Dir:        repo,
		BuildFlags: []string{"-tags=verif", "-mod=mod", "-modfile=" + modfile},
		Env: append(os.Environ(), "GOFLAGS=", "GOPROXY=off", "GOSUMDB=off", "GOTOOLCHAIN=local", "GOWORK=off"),
	}
	pkgs, err := packages.Load(cfg, patterns...)
	if err != nil {
		return nil, err
	}
	nerr := 0
	packages.Visit(pkgs, nil, func(p *packages.Package) {
		for _, e := range p.Errors {
			if strings.HasPrefix(p.PkgPath, modulePath) && !strings.Contains(p.PkgPath, "/test/") {
				fmt.Fprintf(os.Stderr, "load error: %s: %v\n", p.PkgPath, e)
				nerr++
			}
		}
	})
	if nerr > 0 {
		return nil, fmt.Errorf("%d package load errors (does /repo build?)", nerr)
	}
	prog, spkgs := ssautil.Packages(pkgs, ssa.InstantiateGenerics|ssa.GlobalDebug)
	prog.Build()
	w.prog = prog
	w.pkgs = pkgs
	w.ssaPkgs = spkgs
	packages.Visit(pkgs, nil, func(p *packages.Package) {
		if !strings.HasPrefix(p.PkgPath, modulePath+"/") {
			return
		}
		m := map[string][]string{}
		add := func(alias, path string) {
			for _, x := range m[alias] {
				if x == path {
					return
				}
			}
			m[alias] = append(m[alias], path)
		}
		for _, f := range p.Syntax {
			for _, imp := range f.Imports {
				path, _ := strconv.Unquote(imp.Path.Value)
				if imp.Name != nil {
					add(imp.Name.Name, path)
				} else {
					add(filepath.Base(path), path)
				}
			}
		}
		w.importAlias[p.PkgPath] = m
	})
	if err := w.checkGlobalNonNil(); err != nil {
		return nil, err
	}
	// bind contracts to functions
	for _, c := range all {
		fn := w.findFunc(c.Pkg, c.Name)
		if fn == nil {
			// recorded: the engine reports it per property
			w.contracts[c.Pkg+"."+c.Name] = c
			continue
		}
		w.contracts[c.Pkg+"."+c.Name] = c
		w.byFn[fn] = c
		w.fnOf[c] = fn
	}
	return w, nil
}

// findFunc resolves "name", "Type.method", "name$1", "Type.method$1" in a package.
func (w *World) findFunc(pkgPath, name string) *ssa.Function {
	var pkg *ssa.Package
	for _, p := range w.prog.AllPackages() {
		if p.Pkg.Path() == pkgPath {
			pkg = p
		}
	}
	if pkg == nil {
		return nil
	}
	base := name
	var anon []string
	if i := strings.Index(name, "$"); i >= 0 {
		base = name[:i]
		anon = strings.Split(name[i+1:], "$")
	}
	var fn *ssa.Function
	if i := strings.Index(base, "."); i >= 0 {
		tn, mn := base[:i], base[i+1:]
		t := pkg.Type(tn)
		if t == nil {
			return nil
		}
		for _, recv := range []interface{ String() string }{t.Type()} {
			_ = recv
		}
		ms := w.prog.MethodSets.MethodSet(t.Type())
		if sel := ms.Lookup(pkg.Pkg, mn); sel != nil {
			fn = w.prog.MethodValue(sel)
		}
		if fn == nil {
			ms = w.prog.MethodSets.MethodSet(typesNewPointer(t.Type()))
			if sel := ms.Lookup(pkg.Pkg, mn); sel != nil {
				fn = w.prog.MethodValue(sel)
			}
		}
	} else {
		fn = pkg.Func(base)
	}
	for fn != nil && len(anon) > 0 {
		idx, err := strconv.Atoi(anon[0])
		if err != nil || idx < 1 || idx > len(fn.AnonFuncs) {
			return nil
		}
		// AnonFuncs are in source order; names are parent$N
		want := fn.Name() + "$" + anon[0]
		var next *ssa.Function
		for _, a := range fn.AnonFuncs {
			if a.Name() == want {
				next = a
			}
		}
		fn = next
		anon = anon[1:]
	}
	return fn
}

var _ = ast.NewIdent

func typesNewPointer(t types.Type) types.Type { return types.NewPointer(t) }

// anyFuncOf returns some function of the package (used as the resolution scope of predicates).
func (w *World) anyFuncOf(pkgPath string) *ssa.Function {
	for _, p := range w.prog.AllPackages() {
		if p.Pkg.Path() == pkgPath {
			if f := p.Func("init"); f != nil {
				return f
			}
		}
	}
	return nil
}

func (w *World) lookupType(pkgPath, name string) types.Type {
	for _, p := range w.prog.AllPackages() {
		if p.Pkg.Path() == pkgPath {
			if tn, ok := p.Pkg.Scope().Lookup(name).(*types.TypeName); ok {
				return tn.Type()
			}
		}
	}
	return nil
}

// checkGlobalNonNil verifies that each declared global is stored only by its package initialiser and
// that the stored value is a fresh allocation (make/new/composite literal).
func (w *World) checkGlobalNonNil() error {
	for key := range globalNonNil {
		i := strings.LastIndex(key, ".")
		pkgPath, name := key[:i], key[i+1:]
		var pkg *ssa.Package
		for _, p := range w.prog.AllPackages() {
			if p.Pkg.Path() == pkgPath {
				pkg = p
			}
		}
		if pkg == nil {
			return fmt.Errorf("global-nonnil %s: package not loaded", key)
		}
		g, ok := pkg.Members[name].(*ssa.Global)
		if !ok {
			return fmt.Errorf("global-nonnil %s: no such global", key)
		}
		stores := 0
		for fn := range ssautil.AllFunctions(w.prog) {
			for _, b := range fn.Blocks {
				for _, ins := range b.Instrs {
					st, ok := ins.(*ssa.Store)
					if !ok || st.Addr != ssa.Value(g) {
						continue
					}
					if fn != pkg.Func("init") {
						return fmt.Errorf("global-nonnil %s: assigned in %s", key, fn)
					}
					switch v := st.Val.(type) {
					case *ssa.MakeMap, *ssa.Alloc, *ssa.MakeChan, *ssa.MakeSlice, *ssa.Function:
						stores++
					case *ssa.Call:
						// a constructor of this repository whose every return value is an allocation
						callee := v.Common().StaticCallee()
						if callee == nil || !w.inRepo(callee) || !returnsAllocation(callee) {
							return fmt.Errorf("global-nonnil %s: initialised by a call that is not a plain constructor", key)
						}
						stores++
					case *ssa.UnOp, *ssa.MakeInterface, *ssa.ChangeInterface:
						// copy of another package's exported variable (trusted to be non-nil: listed as an assumption)
						var src ssa.Value = st.Val
						for {
							if mi, ok := src.(*ssa.MakeInterface); ok {
								src = mi.X
							} else if ci, ok := src.(*ssa.ChangeInterface); ok {
								src = ci.X
							} else {
								break
							}
						}
						u, ok := src.(*ssa.UnOp)
						if !ok {
							return fmt.Errorf("global-nonnil %s: initialised with %T", key, st.Val)
						}
						eg, ok := u.X.(*ssa.Global)
						if !ok || w.inRepoPkg(eg.Pkg) {
							return fmt.Errorf("global-nonnil %s: not a copy of a dependency's global", key)
						}
						externalGlobalsAssumed[key] = eg.Pkg.Pkg.Path() + "." + eg.Name()
						stores++
					default:
						return fmt.Errorf("global-nonnil %s: initialised with %T, not an allocation", key, st.Val)
					}
				}
			}
		}
		if stores != 1 {
			return fmt.Errorf("global-nonnil %s: %d initialising stores found", key, stores)
		}
	}
	return nil
}

func (w *World) getParamMods(key string) ([]paramMod, bool) {
	w.pmMu.Lock()
	defer w.pmMu.Unlock()
	pm, ok := w.paramMods[key]
	return pm, ok
}

func (w *World) setParamMods(key string, pm []paramMod, sorts map[string]string) {
	w.pmMu.Lock()
	defer w.pmMu.Unlock()
	if w.paramMods == nil {
		w.paramMods = map[string][]paramMod{}
		w.compSorts = map[string]string{}
	}
	w.paramMods[key] = pm
	for _, p := range pm {
		w.compSorts[p.comp] = sorts[p.comp]
	}
}

func (w *World) compSortOf(comp string) string {
	w.pmMu.Lock()
	defer w.pmMu.Unlock()
	return w.compSorts[comp]
}

func returnsAllocation(fn *ssa.Function) bool {
	n := 0
	for _, b := range fn.Blocks {
		for _, ins := range b.Instrs {
			if r, ok := ins.(*ssa.Return); ok {
				if len(r.Results) != 1 {
					return false
				}
				if _, ok := r.Results[0].(*ssa.Alloc); !ok {
					return false
				}
				n++
			}
		}
	}
	return n > 0
}

var externalGlobalsAssumed = map[string]string{}

func (w *World) inRepoPkg(p *ssa.Package) bool {
	return p != nil && strings.HasPrefix(p.Pkg.Path(), modulePath+"/")
}
