package main

import (
	"fmt"
	"os"
	"go/ast"
	"go/types"
	"strings"

	"golang.org/x/tools/go/ssa"
)

type callCtx struct {
	f      *Frame
	b      *ssa.BasicBlock
	st     *State
	reach  Term
	args   []Val
	resT   types.Type // result type (may be tuple)
	key    string     // full callee key
	names  []string   // short names for `at` clauses
	fn     *ssa.Function
	instr  ssa.Instruction
	common *ssa.CallCommon
}

const maxInlineDepth = 6

func funcKey(fn *ssa.Function) string {
	if fn == nil {
		return "?"
	}
	s := stripTypeArgs(fn.String())
	// (*metacontroller/pkg/x/y.T).M -> y.T.M ; metacontroller/pkg/x/y.F -> y.F
	s = strings.ReplaceAll(s, "(*", "")
	s = strings.ReplaceAll(s, "(", "")
	s = strings.ReplaceAll(s, ")", "")
	if i := strings.LastIndex(s, "/"); i >= 0 {
		s = s[i+1:]
	}
	return s
}

func calleeNames(key string) []string {
	// key like "(*pkg/path.T).M", "pkg/path.F", "(pkg/path.I).M", "pkg/path.F$1"
	k := funcKeyStr(key)
	parts := strings.Split(k, ".")
	var out []string
	out = append(out, parts[len(parts)-1])
	if len(parts) >= 2 {
		out = append(out, parts[len(parts)-2]+"."+parts[len(parts)-1])
	}
	if len(parts) >= 3 {
		out = append(out, k)
	}
	return out
}

// stripTypeArgs removes generic instantiation arguments: Cache[a/b.K,*c.V] -> Cache
func stripTypeArgs(s string) string {
	var b strings.Builder
	d := 0
	for _, c := range s {
		switch {
		case c == '[':
			d++
		case c == ']':
			d--
		case d == 0:
			b.WriteRune(c)
		}
	}
	return b.String()
}

func funcKeyStr(s string) string {
	s = stripTypeArgs(s)
	s = strings.ReplaceAll(s, "(*", "")
	s = strings.ReplaceAll(s, "(", "")
	s = strings.ReplaceAll(s, ")", "")
	if i := strings.LastIndex(s, "/"); i >= 0 {
		s = s[i+1:]
	}
	return s
}

func (e *Exec) setResult(f *Frame, result ssa.Value, v Val) {
	if result != nil {
		f.vals[result] = v
	}
}

// bindCallResult: `bind call Callee: a, b` names the results of the first call site of Callee in the root function.
func (e *Exec) bindCallResult(cc *callCtx, v Val) {
	e.recordFailStop(cc, v)
	if cc.f != e.rootFrame || e.rootCtr == nil || (len(e.rootCtr.BindCalls) == 0 && len(e.rootCtr.SnapCalls) == 0) {
		return
	}
	defer func() {
		// snapshots: expressions over the state right after the call
		for _, n := range cc.names {
			for _, sp := range e.rootCtr.SnapCalls[n] {
				sv, err := e.eval(e.rootEnv(cc.f, cc.st), sp.Expr)
				if err != nil {
					panic(fmt.Sprintf("fatal: contract of %s: snap %s = %s: %v", e.rootCtr.Name, sp.Name, sp.Text, err))
				}
				e.rootBinders[sp.Name] = sv
			}
		}
	}()
	for _, n := range cc.names {
		names, ok := e.rootCtr.BindCalls[n]
		if !ok {
			continue
		}
		vals := v.Tup
		if len(vals) == 0 {
			vals = []Val{v}
		}
		for i, nm := range names {
			if nm != "_" && i < len(vals) {
				if prev, ok := e.rootBinders[nm]; ok && e.boundCalls[n] && len(prev.Tup) == 0 && len(vals[i].Tup) == 0 && prev.Addr == nil && vals[i].Addr == nil &&
					e.reg.sortOf(prev.T) == e.reg.sortOf(vals[i].T) {
					// several call sites: the value of the site that was executed (later sites take precedence)
					e.rootBinders[nm] = e.mergeVals([]Val{vals[i], prev}, []Term{cc.reach, "true"}, "bind_"+cleanSym(nm))
				} else {
					e.rootBinders[nm] = vals[i]
				}
			}
		}
		if e.discovery == 0 {
			e.boundCalls[n] = true
		}
	}
}

func (e *Exec) execCall(f *Frame, b *ssa.BasicBlock, instr ssa.Instruction, c *ssa.CallCommon, result ssa.Value, st *State, reach Term) {
	var resT types.Type = c.Signature().Results()
	if rt, ok := resT.(*types.Tuple); ok && rt.Len() == 1 {
		resT = rt.At(0).Type()
	}
	cc := &callCtx{f: f, b: b, st: st, reach: reach, resT: resT, instr: instr, common: c}
	// builtins
	if bi, ok := c.Value.(*ssa.Builtin); ok {
		for _, a := range c.Args {
			cc.args = append(cc.args, e.val(f, a))
		}
		if e.rootCtr != nil && f == e.rootFrame {
			// `at append#k(s, elems)`-style guards on builtin call sites (elems is the slice of appended elements)
			for _, at := range e.rootCtr.Ats {
				if at.Callee == bi.Name() {
					cc.names = []string{bi.Name()}
					e.siteClauses(cc)
					break
				}
			}
		}
		e.setResult(f, result, e.builtin(cc, bi.Name()))
		return
	}
	if c.IsInvoke() {
		recv := e.val(f, c.Value)
		// devirtualise when the dynamic type of the receiver is statically known (a boxed value built here)
		if bt, ok := e.boxType[recv.Term]; ok {
			if _, hasSpec := specTable[fmt.Sprintf("(%s).%s", types.TypeString(c.Value.Type(), nil), c.Method.Name())]; !hasSpec {
				if m := e.W.prog.LookupMethod(bt, c.Method.Pkg(), c.Method.Name()); m != nil && m.Blocks != nil && e.W.inRepo(m) {
					cc.args = append(cc.args, Val{T: bt, Term: e.boxOf[recv.Term]})
					for _, a := range c.Args {
						cc.args = append(cc.args, e.val(f, a))
					}
					cc.fn = m
					cc.key = m.String()
					e.callFunction(cc, m, nil, result)
					return
				}
			}
		}
		cc.args = append(cc.args, recv)
		for _, a := range c.Args {
			cc.args = append(cc.args, e.val(f, a))
		}
		cc.key = fmt.Sprintf("(%s).%s", types.TypeString(c.Value.Type(), nil), c.Method.Name())
		e.safety("nilptr", Not(Eq(recv.Term, "nil_any")), reach, "method call "+c.Method.Name()+" on nil interface "+c.Value.Name())
	} else {
		for _, a := range c.Args {
			cc.args = append(cc.args, e.val(f, a))
		}
		if fn := c.StaticCallee(); fn != nil {
			cc.fn = fn
			cc.key = stripTrailingTypeArgs(fn.String())
			if mc, ok := c.Value.(*ssa.MakeClosure); ok {
				cv := e.val(f, mc)
				cc.args = append(cc.args[:0:0], cc.args...)
				e.callFunction(cc, fn, cv.Clo.Bindings, result)
				return
			}
		} else {
			fv := e.val(f, c.Value)
			if fv.Clo != nil {
				cc.fn = fv.Clo.Fn
				cc.key = fv.Clo.Fn.String()
				e.safety("nilfunc", Not(Eq(fv.Term, "0")), reach, "call of nil function value")
				e.callFunction(cc, fv.Clo.Fn, fv.Clo.Bindings, result)
				return
			}
			// unknown function value
			cc.key = "dynamic:" + c.Value.Name()
			if p, ok := c.Value.(*ssa.Parameter); ok {
				cc.key = "param:" + p.Name()
			}
			e.safety("nilfunc", Not(Eq(fv.Term, "0")), reach, "call of nil function value "+c.Value.Name())
			cc.names = []string{sourceNameOf(c.Value)}
			e.siteClauses(cc)
			dv := e.dynamicCall(cc, fv)
			e.setResult(f, result, dv)
			e.bindCallResult(cc, dv)
			return
		}
	}
	e.callFunction(cc, cc.fn, nil, result)
}

// dynamicCall: a call through a function value whose target is unknown (e.g. a callback parameter).
// The callee may do anything its type allows: results are unconstrained; the heap components listed
// in the root contract's `callback` clause are havocked.
func (e *Exec) dynamicCall(cc *callCtx, fv Val) Val {
	e.note("call through function value " + cc.key + ": result unconstrained")
	name := sourceNameOf(cc.common.Value)
	// uninterpreted result of (callee identity, args) for pure callbacks
	if e.rootCtr != nil && e.rootCtr.PureCallbacks[name] {
		return e.pureCallback(fv, cc.args, cc.resT)
	}
	if e.rootCtr != nil && cc.f == e.rootFrame {
		if cb := e.rootCtr.Callbacks[name]; cb != nil {
			if cb.WritesArg >= 0 && cb.WritesArg < len(cc.args) {
				// the callback may change anything in the footprint of that argument
				arg := cc.args[cb.WritesArg]
				r := e.refOfVal(arg)
				e.frameWriteRef(cc.f, cc.st, cc.reach, r, "callback "+name+" writes its argument")
				for _, c := range append([]string{}, e.compOrder...) {
					so := e.compSort[c]
					if !strings.HasPrefix(so, "(Array Int ") {
						continue
					}
					if strings.HasPrefix(c, "OM_") || (deref(arg.T) != nil && c == "H_"+e.reg.typeId(deref(arg.T))) {
						e.havocCompAt(cc.st, c, r)
					}
				}
				// the content map of an *Unstructured argument (same map object, arbitrary new content)
				if el := deref(arg.T); el != nil && strings.HasSuffix(el.String(), "unstructured.Unstructured") {
					a := e.addrOf(arg)
					content := e.load(cc.st, &Addr{Kind: a.Kind, Root: a.Root, Ref: a.Ref, Path: []int{0}})
					if mt, ok := unalias(content.T).Underlying().(*types.Map); ok {
						dn, ds, vn, vs := e.mapNames(mt)
						ln, ls := e.mapLenName(mt)
						e.comp(cc.st, dn, ds)
						e.comp(cc.st, vn, vs)
						e.comp(cc.st, ln, ls)
						cm := e.define(cc.f.prefix+"content", "Int", content.Term)
						for _, c := range []string{dn, vn, ln} {
							e.havocCompAt(cc.st, c, cm)
						}
						e.assume(app(">=", Select(e.comp(cc.st, ln, ls), cm), "0"), "")
					}
				}
			}
			for _, pn := range cb.Extra {
				pv, ok := e.rootEnv(cc.f, cc.st).vars[pn]
				if !ok {
					continue
				}
				r := e.writeTargetRef(pv)
				e.frameWriteRef(cc.f, cc.st, cc.reach, r, "callback "+name+" writes "+pn)
				for _, c := range append([]string{}, e.compOrder...) {
					if strings.HasPrefix(e.compSort[c], "(Array Int ") && strings.HasPrefix(c, "H_") {
						if el := deref(pv.T); el != nil {
							// the cell of the parameter's own type and of struct types embedding it
							_ = el
						}
						e.havocCompAt(cc.st, c, r)
					}
				}
			}
			res := e.havocVal(cc.resT, cc.f.prefix+"cb")
			e.refBoundNew(cc.st, res)
			return res
		}
	}
	return e.havocVal(cc.resT, cc.f.prefix+"dyn")
}

// pureCallback: the value a side-effect-free callback returns, as an uninterpreted function of the
// function value and the arguments.
func (e *Exec) pureCallback(fv Val, args []Val, resT types.Type) Val {
	name := "cb"
	all := append([]Val{{T: tInt, Term: e.asTerm(fv)}}, args...)
	for _, a := range all {
		name += "_" + mangleSort(e.reg.sortOf(a.T))
	}
	name += "__" + mangleSort(e.reg.sortOf(resT))
	return e.uninterpInline(name, all, resT)
}

// uninterp applies an uninterpreted function symbol to first-class argument terms.
func (e *Exec) uninterp(name string, args []Val, resT types.Type) Val {
	if _, isTup := resT.(*types.Tuple); !isTup {
		// same symbol as uninterpInline so that contracts can name the value
		var ts []Term
		var sorts []string
		for _, a := range args {
			if len(a.Tup) > 0 {
				continue
			}
			ts = append(ts, e.asTerm(a))
			sorts = append(sorts, e.reg.sortOf(a.T))
		}
		e.declFun(name, sorts, e.reg.sortOf(resT))
		if len(ts) == 0 {
			return Val{T: resT, Term: app(name)}
		}
		return Val{T: resT, Term: e.define(name, e.reg.sortOf(resT), app(name, ts...))}
	}
	var ts []Term
	var sorts []string
	for _, a := range args {
		if len(a.Tup) > 0 {
			continue
		}
		ts = append(ts, e.asTerm(a))
		sorts = append(sorts, e.reg.sortOf(a.T))
	}
	if tup, ok := resT.(*types.Tuple); ok {
		out := Val{T: resT}
		for i := 0; i < tup.Len(); i++ {
			n := fmt.Sprintf("%s_r%d", name, i)
			e.declFun(n, sorts, e.reg.sortOf(tup.At(i).Type()))
			out.Tup = append(out.Tup, Val{T: tup.At(i).Type(), Term: e.define(n, e.reg.sortOf(tup.At(i).Type()), app(n, ts...))})
		}
		return out
	}
	e.declFun(name, sorts, e.reg.sortOf(resT))
	if len(ts) == 0 {
		return Val{T: resT, Term: name}
	}
	return Val{T: resT, Term: e.define(name, e.reg.sortOf(resT), app(name, ts...))}
}

func (e *Exec) callFunction(cc *callCtx, fn *ssa.Function, bindings []Val, result ssa.Value) {
	e.callFunction1(cc, fn, bindings, result)
	if result != nil {
		if v, ok := cc.f.vals[result]; ok {
			e.bindCallResult(cc, v)
		}
	}
}

func (e *Exec) callFunction1(cc *callCtx, fn *ssa.Function, bindings []Val, result ssa.Value) {
	f := cc.f
	cc.names = calleeNames(cc.key)
	isWrapper := fn != nil && fn.Synthetic != "" && fn.Blocks != nil && (strings.HasPrefix(fn.Synthetic, "wrapper") || strings.HasPrefix(fn.Synthetic, "bound") || strings.HasPrefix(fn.Synthetic, "thunk"))
	if !isWrapper {
		e.siteClauses(cc)
	}
	// 1. hand-written specification (external dependency or trusted override)
	if h, ok := specTable[cc.key]; ok {
		e.assumes[cc.key] = true
		v := h(e, cc)
		e.setResult(f, result, v)
		return
	}
	if h := specByPattern(cc.key); h != nil {
		e.assumes[cc.key] = true
		e.setResult(f, result, h(e, cc))
		return
	}
	if fn != nil && fn.Blocks != nil && (isWrapper || e.W.inRepo(fn)) {
		// 2. in-repo callee with a contract: modular
		if ctr := e.W.contractFor(fn); ctr != nil && !isWrapper && fn != e.rootFn || (fn == e.rootFn && e.W.contractFor(fn) != nil) {
			ctr := e.W.contractFor(fn)
			e.setResult(f, result, e.callByContract(cc, fn, ctr, bindings))
			return
		}
		// 3. inline
		busy := false
		for _, x := range e.inlineStack {
			if x == fn {
				busy = true
			}
		}
		if !busy && len(e.inlineStack) < maxInlineDepth {
			e.inlineStack = append(e.inlineStack, fn)
			_, rr := e.runBody(fn, cc.args, bindings, cc.st, cc.reach, nil, f.depth+1)
			e.inlineStack = e.inlineStack[:len(e.inlineStack)-1]
			// the callee always returns (panics are separate obligations): continue with its exit state
			cc.st.comps = rr.state.comps
			e.setResult(f, result, e.packResult(cc.resT, rr.rets))
			return
		}
		e.note("call to " + cc.key + " not inlined (recursion/depth): havoc")
		e.applyHavoc(cc.st, e.modsOfCall(fn, cc.args, bindings, cc.st))
		e.setResult(f, result, e.havocVal(cc.resT, f.prefix+"rec"))
		return
	}
	// 4. unknown external: pure function of its arguments (listed as an assumption)
	e.assumes["default-pure:"+cc.key] = true
	dv := e.uninterp("ext_"+cleanSym(funcKeyStr(cc.key)), cc.args, cc.resT)
	e.wellFormedResult(dv)
	e.setResult(f, result, dv)
}

func (e *Exec) packResult(resT types.Type, rets []Val) Val {
	if tup, ok := resT.(*types.Tuple); ok {
		if tup.Len() == 0 {
			return Val{T: resT, Term: "0"}
		}
		return Val{T: resT, Tup: rets}
	}
	if len(rets) == 1 {
		return rets[0]
	}
	return Val{T: resT, Term: "0"}
}

// paramMods: a call's write set expressed over the callee's parameters (memoised per callee).
type paramMod struct {
	comp string
	kind int // 0 whole, 1 argument i, 2 binding i, 3 literal/global constant term
	idx  int
	term Term
	path string     // "#i.j": only this field of the cell
	rootT types.Type
}

func modsKey(fn *ssa.Function, args, bindings []Val) string {
	var b strings.Builder
	b.WriteString(fn.String())
	for _, a := range append(append([]Val{}, args...), bindings...) {
		if a.Clo != nil {
			b.WriteString("|" + a.Clo.Fn.String())
			for _, bb := range a.Clo.Bindings {
				if bb.Clo != nil {
					b.WriteString("+" + bb.Clo.Fn.String())
				}
			}
		} else if a.Addr != nil {
			fmt.Fprintf(&b, "|@%d:%s:%v", a.Addr.Kind, types.TypeString(a.Addr.Root, nil), a.Addr.Path)
		} else {
			b.WriteString("|-")
		}
	}
	return b.String()
}

// modsOfCall: heap components/cells a call may modify, discovered by a dry run of the callee's
// body with the actual arguments (so that writes to caller-known cells stay cell-precise). The result
// is memoised per callee in terms of its parameters.
func (e *Exec) modsOfCall(fn *ssa.Function, args, bindings []Val, st *State) modSet {
	// canonical arguments: a reference argument given as a compound term gets a name, so that what the
	// callee writes through it is recorded relative to the parameter whoever the caller is (the memo is
	// shared by all callers; without this its precision depended on which caller came first)
	args = e.canonRefArgs(fn, args, "marg")
	bindings = e.canonRefArgs(fn, bindings, "mbind")
	key := modsKey(fn, args, bindings)
	if pm, ok := e.W.getParamMods(key); ok {
		return e.instantiateMods(pm, args, bindings)
	}
	if e.modsBusy[fn] {
		// recursion: fall back to everything this function is already known to touch, entirely
		ms := modSet{}
		for _, c := range e.modsMemo[fn] {
			ms.add(c, "")
		}
		e.recursive[fn] = true
		if os.Getenv("GOVC_DEBUG") != "" {
			fmt.Fprintf(os.Stderr, "DEBUG recursion through %s\n", fn.String())
		}
		e.busyHits++
		return ms
	}
	e.modsBusy[fn] = true
	defer delete(e.modsBusy, fn)
	hits0 := e.busyHits
	var result modSet
	for iter := 0; iter < 4; iter++ {
		sn := e.snapshot()
		e.discovery++
		dry := st.clone()
		savedStack := e.inlineStack
		// a fresh inlining budget: the (memoised) result must not depend on how deep the first caller was
		e.inlineStack = []*ssa.Function{fn}
		_, rr := e.runBody(fn, args, bindings, dry, "true", nil, 1)
		e.inlineStack = savedStack
		e.discovery--
		changed := map[string]bool{}
		for k, v := range rr.state.comps {
			pv, ok := st.comps[k]
			if !ok {
				pv = e.compInit[k]
			}
			if v != pv {
				changed[k] = true
			}
		}
		ms := e.refineMods(changed, sn.nlog, sn.nitems)
		if dc := os.Getenv("GOVC_DEBUG_COMP"); dc != "" && strings.Contains(fn.String(), os.Getenv("GOVC_DEBUG_FN")) {
			fmt.Fprintf(os.Stderr, "DEBUG modsOfCall %s comp %s changed=%v result=%v\n", fn.String(), dc, changed[dc], ms[dc])
			for _, w := range e.wlog[sn.nlog:] {
				if w.comp == dc {
					fmt.Fprintf(os.Stderr, "   wlog ref=%q stable=%v fresh=%v\n", w.ref, e.stableRef(strings.SplitN(w.ref, "#", 2)[0], sn.nitems), e.freshDuring(strings.SplitN(w.ref, "#", 2)[0], sn.nitems))
				}
			}
		}
		e.wlog = e.wlog[:sn.nlog]
		e.rollback(sn)
		result = ms
		names := sortedKeys(changed)
		prev := e.modsMemo[fn]
		union := map[string]bool{}
		for _, n := range prev {
			union[n] = true
		}
		for _, n := range names {
			union[n] = true
		}
		e.modsMemo[fn] = sortedKeys(union)
		if !e.recursive[fn] || len(e.modsMemo[fn]) == len(prev) {
			break
		}
	}
	if e.recursive[fn] {
		// recursive functions: every component ever touched, entirely
		ms := modSet{}
		for _, c := range e.modsMemo[fn] {
			ms.add(c, "")
		}
		result = ms
	}
	// parametrise and memoise (only when no enclosing recursion is still being resolved)
	if e.busyHits == hits0 || len(e.modsBusy) == 1 {
		var pm []paramMod
		for comp, refs := range result {
			if len(refs) == 0 {
				pm = append(pm, paramMod{comp: comp, kind: 4})
			}
			for r := range refs {
				pm = append(pm, e.parametrise(comp, r, args, bindings))
			}
		}
		e.W.setParamMods(key, pm, e.compSort)
	}
	return result
}

func (e *Exec) canonRefArgs(fn *ssa.Function, vs []Val, tag string) []Val {
	var out []Val
	for i, a := range vs {
		if len(a.Tup) == 0 && a.Addr == nil && a.Clo == nil && a.T != nil && e.reg.sortOf(a.T) == "Int" && isRefLike(a.T) && !isAtom(a.Term) && e.inQuant == 0 {
			b := a
			b.Term = e.define(fmt.Sprintf("%s%d_%s", tag, i, cleanSym(fn.Name())), "Int", a.Term)
			if r, ok := e.boxOf[a.Term]; ok {
				e.boxOf[b.Term] = r
			}
			if out == nil {
				out = append([]Val{}, vs...)
			}
			out[i] = b
		}
	}
	if out == nil {
		return vs
	}
	return out
}

func (e *Exec) parametrise(comp string, ref Term, args, bindings []Val) paramMod {
	if i := strings.Index(ref, "#"); i >= 0 {
		pm := e.parametrise(comp, ref[:i], args, bindings)
		if pm.kind != 0 {
			pm.path = ref[i:]
			pm.rootT = e.compType[comp]
		}
		return pm
	}
	if ref == "" {
		return paramMod{comp: comp, kind: 0}
	}
	for i, a := range args {
		if len(a.Tup) == 0 && a.Addr == nil && a.Term == ref {
			return paramMod{comp: comp, kind: 1, idx: i}
		}
		if len(a.Tup) == 0 && a.Addr != nil && a.Addr.Kind == addrHeap && a.Addr.Ref == ref {
			return paramMod{comp: comp, kind: 1, idx: i}
		}
	}
	for i, a := range bindings {
		if len(a.Tup) == 0 && a.Addr == nil && a.Term == ref {
			return paramMod{comp: comp, kind: 2, idx: i}
		}
	}
	if strings.HasPrefix(ref, "gv_") || strings.HasPrefix(ref, "glob_") || (ref[0] >= '0' && ref[0] <= '9') {
		return paramMod{comp: comp, kind: 3, term: ref}
	}
	return paramMod{comp: comp, kind: 0}
}

func (e *Exec) instantiateMods(pm []paramMod, args, bindings []Val) modSet {
	ms := modSet{}
	for _, p := range pm {
		if _, ok := e.compSort[p.comp]; !ok {
			so := e.W.compSortOf(p.comp)
			if so == "" {
				continue
			}
			e.reg.useSort(so)
			e.comp(&State{comps: map[string]Term{}}, p.comp, so)
		}
		if p.path != "" && p.rootT != nil {
			if e.compType == nil {
				e.compType = map[string]types.Type{}
			}
			e.compType[p.comp] = p.rootT
		}
		switch p.kind {
		case 0:
			ms.add(p.comp, "")
		case 1:
			if p.idx < len(args) && args[p.idx].Addr == nil && isAtom(args[p.idx].Term) {
				ms.add(p.comp, args[p.idx].Term+p.path)
			} else if p.idx < len(args) && args[p.idx].Addr != nil && args[p.idx].Addr.Kind == addrHeap && isAtom(args[p.idx].Addr.Ref) {
				// interior pointer argument (embedded struct): same shape as in the memoised run (part of the key)
				ms.add(p.comp, args[p.idx].Addr.Ref+p.path)
			} else {
				ms.add(p.comp, "")
			}
		case 2:
			if p.idx < len(bindings) && bindings[p.idx].Addr == nil && isAtom(bindings[p.idx].Term) {
				ms.add(p.comp, bindings[p.idx].Term+p.path)
			} else {
				ms.add(p.comp, "")
			}
		case 3:
			if strings.HasPrefix(p.term, "glob_") && !e.declared[p.term] {
				ms.add(p.comp, "")
			} else {
				ms.add(p.comp, p.term+p.path)
			}
		case 4:
			if ms[p.comp] == nil {
				ms[p.comp] = map[string]bool{}
			}
		}
	}
	return ms
}

// callByContract: modular call — check requires, havoc modifies, assume ensures.
func (e *Exec) callByContract(cc *callCtx, fn *ssa.Function, ctr *FuncContract, bindings []Val) Val {
	f := cc.f
	env := e.contractEnv(fn, ctr, cc.args, nil, cc.st, cc.st)
	env.frame = nil
	for i, fv := range fn.FreeVars {
		if i < len(bindings) {
			env.vars[fv.Name()] = bindings[i]
		}
	}
	for _, cl := range ctr.Requires {
		t, err := e.evalBool(env, cl.Expr)
		if err != nil {
			panic(fmt.Sprintf("fatal: contract of %s: requires %s: %v", ctr.Name, cl.Text, err))
		}
		props := cl.Props
		if cl.Assumed {
			e.assumes["assumed-precondition of "+ctr.Name+": "+cl.Text] = true
			continue
		}
		e.oblige("pre", "call."+ctr.Name, mergeProps(props, e.rootProps()), cc.reach, t,
			fmt.Sprintf("precondition of %s at call site: %s", ctr.Name, cl.Text), "requires "+cl.Text)
		e.assume(Implies(cc.reach, t), "")
	}
	for _, gi := range e.allGlobalInvs(cc.st, cc.st) {
		e.oblige("ginv", "call."+ctr.Name, gi.cl.Props, cc.reach, gi.term, "package invariant holds before calling "+ctr.Name+": "+gi.cl.Text, "global-invariant "+gi.cl.Text)
	}
	e.checkCallbackArgs(cc, fn, ctr)
	pre := cc.st.clone()
	ms := e.modsOfCall(fn, cc.args, bindings, cc.st)
	if os.Getenv("GOVC_DEBUG") != "" && e.discovery == 0 {
		fmt.Fprintf(os.Stderr, "DEBUG call %s mods:\n", ctr.Name)
		for _, m := range sortedKeys(ms) {
			fmt.Fprintf(os.Stderr, "   %s %q\n", m, sortedKeys(ms[m]))
		}
	}
	for k := range ms {
		if strings.HasPrefix(k, "VISITED_") || strings.HasPrefix(k, "CALLED_") || strings.HasPrefix(k, "COUNT_") {
			delete(ms, k) // ghost flags describe the caller's own body (including inlined code) only
		}
	}
	if ctr.Writes != nil {
		// framed havoc: everything allocated before the call and not listed keeps its value
		envT := *env
		envT.cur = pre
		envT.old = pre
		targets, err := e.evalWriteTargets(&envT, ctr.Writes)
		if err != nil {
			panic(fmt.Sprintf("fatal: contract of %s: %v", ctr.Name, err))
		}
		if ctr.Writes.Assumed {
			e.assumes["assumed frame (not proved): "+ctr.Pkg+"."+ctr.Name+" writes "+ctr.Writes.Text] = true
		}
		if e.rootCtr != nil && e.rootCtr.Writes != nil && !e.rootCtr.Writes.Assumed && e.discovery == 0 {
			for _, t := range targets {
				goal := ""
				if t.member == nil {
					goal = e.writeAllowed(t.single)
				} else {
					goal = fmt.Sprintf("(forall ((rw Int)) (=> (and (not (= rw 0)) %s) %s))", t.member("rw"), e.writeAllowed("rw"))
				}
				e.oblige("frame", "call."+ctr.Name, e.rootCtr.Writes.Props, cc.reach, goal,
					"callee "+ctr.Name+" may write "+t.text+", which is outside the declared footprint", "writes "+e.rootCtr.Writes.Text)
			}
		}
		apre := e.allocCtr(pre)
		if _, ok := ms[allocComp]; ok {
			olda := e.allocCtr(cc.st)
			e.havocComp(cc.st, allocComp)
			e.assume(app(">=", cc.st.comps[allocComp], olda), "")
			delete(ms, allocComp)
		}
		savedPA := e.pendingAlloc
		e.pendingAlloc = e.allocCtr(cc.st)
		defer func() { e.pendingAlloc = savedPA }()
		for _, m := range sortedKeys(ms) {
			so := e.compSort[m]
			if m == allocComp || !strings.HasPrefix(so, "(Array Int ") {
				continue
			}
			old := e.comp(cc.st, m, so)
			nlog := len(e.wlog)
			e.havocComp(cc.st, m)
			// the write log records what the callee may touch from the caller's point of view: its targets only
			e.wlog = e.wlog[:nlog]
			napplied := 0
			for _, t := range targets {
				if !t.appliesTo(m) {
					continue
				}
				napplied++
				if t.member == nil {
					e.wlog = append(e.wlog, writeRec{m, t.single})
				} else {
					e.wlog = append(e.wlog, writeRec{m, ""})
				}
			}
			if napplied == 0 {
				// only memory allocated during the call: logged against a pseudo-fresh reference
				e.wlog = append(e.wlog, writeRec{m, "@fresh"})
			}
			nw := cc.st.comps[m]
			cond := []Term{app("<=", "rq", apre)}
			for _, t := range targets {
				if !t.appliesTo(m) {
					continue
				}
				cond = append(cond, Not(t.contains("rq")))
			}
			e.assumeKeyed(nw, fmt.Sprintf("(forall ((rq Int)) (! (=> %s (= (select %s rq) (select %s rq))) :pattern ((select %s rq))))", And(cond...), nw, old, nw), "frame of "+ctr.Name+": writes "+ctr.Writes.Text)
			delete(ms, m)
		}
	} else if e.rootCtr != nil && e.rootCtr.Writes != nil && !e.rootCtr.Writes.Assumed && e.discovery == 0 {
		// callee without a writes clause: its discovered write set must lie inside the caller's footprint
		for _, m := range sortedKeys(ms) {
			so := e.compSort[m]
			if m == allocComp || m == "LOCKED" || !strings.HasPrefix(so, "(Array Int ") {
				// LOCKED is the lock-discipline ghost (held locks), not memory: balanced by the callee's own contract
				continue
			}
			if ms[m][""] {
				e.oblige("frame", "call."+ctr.Name, e.rootCtr.Writes.Props, cc.reach, "false", "callee "+ctr.Name+" has no writes clause and may write "+m+" anywhere", "writes "+e.rootCtr.Writes.Text)
				continue
			}
			for r := range ms[m] {
				e.oblige("frame", "call."+ctr.Name, e.rootCtr.Writes.Props, cc.reach, e.writeAllowed(r), "callee "+ctr.Name+" writes "+m+" at "+r, "writes "+e.rootCtr.Writes.Text)
			}
		}
	}
	e.applyHavoc(cc.st, ms)
	e.applyKeeps(cc, ctr, pre)
	res := e.havocVal(cc.resT, f.prefix+"call_"+cleanSym(ctr.Name))
	if ctr.Pure {
		res = e.uninterp("pure_"+cleanSym(funcKeyStr(ctr.Pkg+"."+ctr.Name)), cc.args, cc.resT)
	}
	var rets []Val
	if len(res.Tup) > 0 {
		rets = res.Tup
	} else if tup, ok := cc.resT.(*types.Tuple); !ok || tup.Len() > 0 {
		rets = []Val{res}
	}
	for _, r := range rets {
		e.refBoundNew(cc.st, r)
	}
	env2 := e.contractEnv(fn, ctr, cc.args, rets, pre, cc.st)
	for i, fv := range fn.FreeVars {
		if i < len(bindings) {
			env2.vars[fv.Name()] = bindings[i]
		}
	}
	for _, cl := range append(append([]Clause{}, ctr.Ensures...), ctr.Tags...) {
		if ctr.usesInternalNames(cl.Expr) {
			continue // clause about the function's own intermediate values: not visible to callers
		}
		if cl.Assumed {
			e.assumes["assumed postcondition (not proved) of "+ctr.Pkg+"."+ctr.Name+": "+cl.Text] = true
		}
		t, err := e.evalBool(env2, cl.Expr)
		if err != nil {
			panic(fmt.Sprintf("fatal: contract of %s: ensures %s: %v", ctr.Name, cl.Text, err))
		}
		// a postcondition is known only on executions that make this call
		e.assume(Implies(cc.reach, t), "")
	}
	for _, gi := range e.allGlobalInvs(pre, cc.st) {
		e.assume(Implies(cc.reach, gi.term), "package invariant after call")
	}
	if ctr.Trusted {
		e.assumes["trusted in-repo contract: "+ctr.Pkg+"."+ctr.Name+" ("+ctr.TrustedWhy+")"] = true
	}
	// ghost call flags of the callee's own `calls` summary are not propagated (direct calls only)
	return res
}

func (e *Exec) refBoundNew(s *State, v Val) {
	if len(v.Tup) > 0 {
		for _, x := range v.Tup {
			e.refBoundNew(s, x)
		}
		return
	}
	if v.Term == "" {
		return
	}
	e.refTyped(v)
	if isRefLike(v.T) {
		if _, isSig := unalias(v.T).Underlying().(*types.Signature); isSig {
			return
		}
		e.assume(app("<=", v.Term, e.allocCtr(s)), "")
	} else if _, ok := unalias(v.T).Underlying().(*types.Slice); ok {
		e.assume(And(app("<=", app("s_base", v.Term), e.allocCtr(s)), app(">=", app("s_len", v.Term), "0"), app(">=", app("s_off", v.Term), "0"), app(">=", app("s_cap", v.Term), app("s_len", v.Term))), "")
	}
}

func (e *Exec) rootProps() []string {
	if e.rootCtr == nil {
		return nil
	}
	return e.rootCtr.AllProps
}

func mergeProps(a, b []string) []string {
	if len(a) > 0 {
		return a
	}
	return b
}

// siteClauses: `at Name(binders): guard` clauses of the root contract, ghost call flags.
func (e *Exec) siteClauses(cc *callCtx) {
	// ghost flags
	for _, n := range cc.names {
		if e.trackCalled[n] {
			cn := "CALLED_" + cleanSym(n)
			e.comp(cc.st, cn, "Bool")
			e.setComp(cc.st, cn, "Bool", "true")
			kn := "COUNT_" + cleanSym(n)
			old := e.comp(cc.st, kn, "Int")
			e.setComp(cc.st, kn, "Int", app("+", old, "1"))
		}
	}
	if e.rootCtr == nil || e.discovery > 0 {
		return
	}
	siteNo := map[string]int{}
	clauseNo := map[string]int{}
	for _, at := range e.rootCtr.Ats {
		clauseNo[at.Callee]++
		match := false
		for _, n := range cc.names {
			if n == at.Callee {
				match = true
			}
		}
		if !match {
			continue
		}
		if _, ok := siteNo[at.Callee]; !ok {
			e.siteSeq[at.Callee]++
			siteNo[at.Callee] = e.siteSeq[at.Callee]
		}
		if at.Site != 0 && at.Site != siteNo[at.Callee] {
			continue
		}
		site := fmt.Sprintf("%s.s%d.c%d", at.Callee, siteNo[at.Callee], clauseNo[at.Callee])
		env := e.rootEnv(cc.f, cc.st)
		for i, bn := range at.Binders {
			if bn == "_" || i >= len(cc.args) {
				continue
			}
			env.vars[bn] = cc.args[i]
		}
		t, err := e.evalBool(env, at.Expr)
		if err != nil {
			panic(fmt.Sprintf("fatal: contract of %s: at %s: %v", e.rootCtr.Name, at.Text, err))
		}
		e.oblige("effect", site, at.Props, cc.reach, t, fmt.Sprintf("guard of %s at call site: %s", at.Callee, at.Text), "at "+at.Callee+": "+at.Text)
		if clauseNo[at.Callee] == 1 || true {
			e.cover(site, at.Props, cc.reach, "call site of "+at.Callee+" is reachable")
		}
	}
}

// execGo: `go f(args)` — only the fork/join idiom is supported: the body is executed as if called.
func (e *Exec) execGo(f *Frame, b *ssa.BasicBlock, g *ssa.Go, st *State, reach Term) {
	e.execCall(f, b, g, g.Common(), nil, st, reach)
}

func (e *Exec) builtin(cc *callCtx, name string) Val {
	f := cc.f
	st := cc.st
	a := cc.args
	switch name {
	case "len":
		switch t := unalias(a[0].T).Underlying().(type) {
		case *types.Slice:
			return Val{T: types.Typ[types.Int], Term: app("s_len", a[0].Term)}
		case *types.Map:
			l := e.define(f.prefix+"len", "Int", e.mapLen(st, t, a[0].Term))
			e.assume(app(">=", l, "0"), "")
			return Val{T: types.Typ[types.Int], Term: l}
		case *types.Basic:
			return Val{T: types.Typ[types.Int], Term: app("str.len", a[0].Term)}
		case *types.Array:
			return Val{T: types.Typ[types.Int], Term: IntLit(t.Len())}
		case *types.Pointer:
			return Val{T: types.Typ[types.Int], Term: IntLit(unalias(t.Elem()).Underlying().(*types.Array).Len())}
		case *types.Chan:
			return e.havocVal(types.Typ[types.Int], "chanlen")
		}
	case "cap":
		if _, ok := unalias(a[0].T).Underlying().(*types.Slice); ok {
			return Val{T: types.Typ[types.Int], Term: app("s_cap", a[0].Term)}
		}
	case "append":
		return e.appendOp(cc)
	case "delete":
		mt := unalias(a[0].T).Underlying().(*types.Map)
		e.frameWriteRef(f, st, cc.reach, a[0].Term, "delete from map")
		e.mapDelete(st, mt, a[0].Term, a[1].Term)
		return Val{T: cc.resT, Term: "0"}
	case "close":
		e.note("close(chan) recorded as a ghost event")
		cn := "CLOSED"
		c := e.comp(st, cn, "(Array Int Bool)")
		if e.rootCtr != nil && e.rootCtr.CloseChan {
			e.safety("closechan", And(Not(Eq(a[0].Term, "0")), Not(Select(c, a[0].Term))), cc.reach, "close of nil or already closed channel")
		}
		e.setComp(st, cn, "(Array Int Bool)", Store(c, a[0].Term, "true"))
		return Val{T: cc.resT, Term: "0"}
	case "print", "println":
		return Val{T: cc.resT, Term: "0"}
	case "min", "max":
		op := "<="
		if name == "max" {
			op = ">="
		}
		r := a[0].Term
		for _, x := range a[1:] {
			r = Ite(app(op, r, x.Term), r, x.Term)
		}
		return Val{T: a[0].T, Term: r}
	case "copy":
		e.note("builtin copy abstracted")
		sl := unalias(a[0].T).Underlying().(*types.Slice)
		n, _ := e.arrName(sl.Elem())
		e.comp(st, n, e.compSortOfArr(sl.Elem()))
		e.havocComp(st, n)
		return e.havocVal(types.Typ[types.Int], "copy")
	}
	panic("builtin " + name)
}

func (e *Exec) compSortOfArr(t types.Type) string {
	_, so := e.arrName(t)
	return so
}

// appendOp models append(s, t...) following the Go specification: in place when capacity allows
// (non-deterministically exposed through the capacity value), otherwise into a fresh array.
func (e *Exec) appendOp(cc *callCtx) Val {
	f, st := cc.f, cc.st
	s, t := cc.args[0], cc.args[1]
	sl := unalias(s.T).Underlying().(*types.Slice)
	n, so := e.arrName(sl.Elem())
	es := e.reg.sortOf(sl.Elem())
	if _, isStr := unalias(t.T).Underlying().(*types.Basic); isStr {
		e.note("append(bytes, string...) abstracted")
		return e.havocVal(s.T, "append")
	}
	h := e.comp(st, n, so)
	ls, lt := app("s_len", s.Term), app("s_len", t.Term)
	e.noteIndexTerm(ls)
	newLen := e.define(f.prefix+"applen", "Int", app("+", ls, lt))
	fits := e.define(f.prefix+"appfits", "Bool", app("<=", newLen, app("s_cap", s.Term)))
	// static length of the appended slice, if it is a freshly packed varargs array
	k := staticSliceLen(cc.common.Args[1])
	fr := e.freshRef(st, "append")
	capv := e.fresh(f.prefix+"appcap", "Int")
	e.assume(app(">=", capv, newLen), "")
	if k >= 0 {
		// in place: write k cells after the end of s; else: copy into the fresh array
		inRow := Select(h, app("s_base", s.Term))
		srcRow := Select(h, app("s_base", t.Term))
		for j := 0; j < k; j++ {
			inRow = Store(inRow, app("+", app("s_off", s.Term), ls, IntLit(int64(j))), Select(srcRow, app("+", app("s_off", t.Term), IntLit(int64(j)))))
		}
		newRow := e.fresh(f.prefix+"approw", fmt.Sprintf("(Array Int %s)", es))
		// fresh row: prefix copied (quantified), tail written
		{
			sb, so2 := app("s_base", s.Term), app("s_off", s.Term)
			e.assumeForallInt("true", func(i Term) Term {
				return Implies(And(app("<=", "0", i), app("<", i, ls)), Eq(Select(newRow, i), Select(Select(h, sb), app("+", so2, i))))
			}, func(i Term) Term { return Select(newRow, i) }, "append copies the prefix")
		}
		for j := 0; j < k; j++ {
			e.assume(Eq(Select(newRow, app("+", ls, IntLit(int64(j)))), Select(srcRow, app("+", app("s_off", t.Term), IntLit(int64(j))))), "")
		}
		if k == 0 {
			return s
		}
		e.frameWriteRefIf(f, st, And(cc.reach, fits), app("s_base", s.Term), "append in place")
		nh := Ite(fits, Store(h, app("s_base", s.Term), inRow), Store(h, fr, newRow))
		e.setCompRefs(st, n, so, nh, app("s_base", s.Term), fr)
		res := Ite(fits, app("mk_slice", app("s_base", s.Term), app("s_off", s.Term), newLen, app("s_cap", s.Term)), app("mk_slice", fr, "0", newLen, capv))
		return Val{T: s.T, Term: e.define(f.prefix+"append", "Slice", res)}
	}
	// dynamic: result row characterised by quantified facts; both in-place and fresh variants
	e.note("append with a dynamic number of elements in " + f.fn.Name() + ": modelled with quantified facts")
	newRow := e.fresh(f.prefix+"approw", fmt.Sprintf("(Array Int %s)", es))
	newH := e.fresh(n+"!app", so)
	resBase := e.define(f.prefix+"appbase", "Int", Ite(fits, app("s_base", s.Term), fr))
	resOff := e.define(f.prefix+"appoff", "Int", Ite(fits, app("s_off", s.Term), "0"))
	e.assume(Eq(newH, Store(h, resBase, newRow)), "")
	{
		sb, so2 := app("s_base", s.Term), app("s_off", s.Term)
		tb, to2 := app("s_base", t.Term), app("s_off", t.Term)
		e.assumeForallInt("true", func(i Term) Term {
			return Implies(And(app("<=", "0", i), app("<", i, ls)), Eq(Select(newRow, app("+", resOff, i)), Select(Select(h, sb), app("+", so2, i))))
		}, nil, "append keeps the prefix")
		e.assumeForallInt("true", func(i Term) Term {
			return Implies(And(app("<=", "0", i), app("<", i, lt)), Eq(Select(newRow, app("+", resOff, ls, i)), Select(Select(h, tb), app("+", to2, i))))
		}, nil, "append copies the new elements")
	}
	// in place: cells outside [off+ls, off+ls+lt) of the base row are unchanged
	e.assume(Implies(fits, fmt.Sprintf("(forall ((iq Int)) (! (=> (or (< iq (+ %s %s)) (>= iq (+ %s %s))) (= (select %s iq) (select (select %s %s) iq))) :pattern ((select %s iq))))",
		app("s_off", s.Term), ls, app("s_off", s.Term), newLen, newRow, h, app("s_base", s.Term), newRow)), "append in place leaves other cells")
	e.frameWriteRefIf(f, st, And(cc.reach, fits), app("s_base", s.Term), "append in place")
	e.wlog = append(e.wlog, writeRec{n, app("s_base", s.Term)}, writeRec{n, fr})
	st.comps[n] = newH
	res := app("mk_slice", resBase, resOff, newLen, Ite(fits, app("s_cap", s.Term), capv))
	return Val{T: s.T, Term: e.define(f.prefix+"append", "Slice", res)}
}

// staticSliceLen recognises `slice t[:]` of `new [k]T (varargs)`.
func staticSliceLen(v ssa.Value) int {
	if c, ok := v.(*ssa.Const); ok && c.Value == nil {
		return 0
	}
	sl, ok := v.(*ssa.Slice)
	if !ok || sl.Low != nil || sl.High != nil {
		return -1
	}
	al, ok := sl.X.(*ssa.Alloc)
	if !ok {
		return -1
	}
	arr, ok := unalias(deref(al.Type())).Underlying().(*types.Array)
	if !ok {
		return -1
	}
	return int(arr.Len())
}

// checkCallbackArgs: closures passed for parameters with a callback specification must themselves be
// under a contract whose writes clause stays inside what the specification allows.
func (e *Exec) checkCallbackArgs(cc *callCtx, fn *ssa.Function, ctr *FuncContract) {
	if len(ctr.Callbacks) == 0 || e.discovery > 0 || e.rootCtr == nil {
		return
	}
	for i, p := range fn.Params {
		var cb *CallbackSpec
		if i < len(ctr.Params) {
			cb = ctr.Callbacks[ctr.Params[i]]
		}
		if cb == nil {
			cb = ctr.Callbacks[p.Name()]
		}
		if cb == nil || i >= len(cc.args) {
			continue
		}
		arg := cc.args[i]
		props := e.rootProps()
		if arg.Clo == nil {
			// a function value received from our own caller: it must carry the same specification there
			pn := ""
			if pp, ok := cc.common.Args[i-len(cc.args)+len(cc.common.Args)].(*ssa.Parameter); ok {
				pn = pp.Name()
			}
			if own := e.rootCtr.Callbacks[pn]; own != nil && own.WritesArg == cb.WritesArg {
				continue
			}
			e.oblige("frame", "callback."+ctr.Name, props, cc.reach, "false", "function value passed as callback "+p.Name()+" of "+ctr.Name+" has no known write discipline", "callback "+p.Name())
			continue
		}
		cctr := e.W.contractFor(arg.Clo.Fn)
		ok := cctr != nil && cctr.Writes != nil
		if ok {
			for j, ex := range cctr.Writes.Exprs {
				id, isId := ex.(*ast.Ident)
				allowed := false
				if isId && cb.WritesArg >= 0 && cb.WritesArg < len(cctr.Params) && id.Name == cctr.Params[cb.WritesArg] && !cctr.Writes.Elems[j] {
					allowed = true
				}
				// the content map of an object argument belongs to its footprint
				if sel, ok := ex.(*ast.SelectorExpr); ok && sel.Sel.Name == "Object" && !cctr.Writes.Elems[j] {
					if sid, ok := sel.X.(*ast.Ident); ok && cb.WritesArg >= 0 && cb.WritesArg < len(cctr.Params) && sid.Name == cctr.Params[cb.WritesArg] {
						allowed = true
					}
				}
				if !allowed && !cctr.Writes.Elems[j] && len(cb.Extra) > 0 {
					// the target must denote one of the callee's parameters listed in the specification
					cenv := &Env{vars: map[string]Val{}, cur: cc.st, old: cc.st, fn: arg.Clo.Fn, ctr: cctr, lets: map[string]ast.Expr{}}
					for k, fv := range arg.Clo.Fn.FreeVars {
						if k < len(arg.Clo.Bindings) {
							cenv.vars[fv.Name()] = arg.Clo.Bindings[k]
						}
					}
					tv, err := e.eval(cenv, ex)
					if err == nil {
						var alts []Term
						for _, pn := range cb.Extra {
							for k, cpn := range ctr.Params {
								if cpn == pn && k < len(cc.args) {
									alts = append(alts, Eq(e.writeTargetRef(tv), e.writeTargetRef(cc.args[k])))
								}
							}
						}
						e.oblige("frame", "callback."+ctr.Name, props, cc.reach, Or(alts...), "closure "+arg.Clo.Fn.Name()+" writes "+cctr.Writes.Texts[j]+", which callback "+p.Name()+" of "+ctr.Name+" must be allowed to write", "callback "+p.Name())
						allowed = true
					}
				}
				if !allowed {
					ok = false
				}
			}
		}
		if !ok {
			e.oblige("frame", "callback."+ctr.Name, props, cc.reach, "false", "closure "+arg.Clo.Fn.Name()+" passed as callback "+p.Name()+" of "+ctr.Name+" needs a writes clause within the callback's allowance", "callback "+p.Name())
		}
	}
}

// sourceNameOf: the source-level name of a function value (parameter, captured variable or local).
func sourceNameOf(v ssa.Value) string {
	switch x := v.(type) {
	case *ssa.Parameter:
		return x.Name()
	case *ssa.FreeVar:
		return x.Name()
	case *ssa.UnOp:
		// load of a captured variable / address-taken local / package-level function variable
		switch a := x.X.(type) {
		case *ssa.Global:
			return a.Name()
		case *ssa.FreeVar:
			return a.Name()
		case *ssa.Alloc:
			if a.Comment != "" {
				return a.Comment
			}
		case *ssa.FieldAddr:
			return fieldName(a)
		}
	}
	return v.Name()
}

// stripTrailingTypeArgs: "(*p.T[A, B]).M[A B]" -> "(*p.T[A, B]).M" (instantiation suffix of generic methods/functions
// is kept only when it is the sole type-argument list, e.g. "p.F[int]").
func stripTrailingTypeArgs(s string) string {
	if !strings.HasSuffix(s, "]") {
		return s
	}
	i := strings.LastIndex(s, "[")
	if i < 0 {
		return s
	}
	if strings.Contains(s[:i], "[") {
		return s[:i]
	}
	return s
}

// wellFormedResult: slices returned by unmodelled functions are well-formed slices.
func (e *Exec) wellFormedResult(v Val) {
	if len(v.Tup) > 0 {
		for _, x := range v.Tup {
			e.wellFormedResult(x)
		}
		return
	}
	if v.Term == "" {
		return
	}
	if _, ok := unalias(v.T).Underlying().(*types.Slice); ok {
		e.assume(And(app(">=", app("s_len", v.Term), "0"), app(">=", app("s_off", v.Term), "0"), app(">=", app("s_cap", v.Term), app("s_len", v.Term)), app(">=", app("s_base", v.Term), "0")), "")
	}
	if isRefLike(v.T) {
		if _, isSig := unalias(v.T).Underlying().(*types.Signature); !isSig {
			e.assume(app(">=", v.Term, "0"), "")
		}
	}
}

// applyKeeps: `keeps call Callee: m1, m2` of the root contract — the call is ASSUMED not to write the named maps/slices of the
// caller (an explicit aliasing/tree-shape assumption, reported in the evidence): their cells are carried across the call.
func (e *Exec) applyKeeps(cc *callCtx, ctr *FuncContract, pre *State) {
	if e.rootCtr == nil || cc.f != e.rootFrame || len(e.rootCtr.KeepsCalls) == 0 {
		return
	}
	for _, n := range cc.names {
		for _, ks := range e.rootCtr.KeepsCalls[n] {
			env := e.rootEnv(cc.f, pre)
			v, err := e.eval(env, ks.Expr)
			if err != nil {
				panic(fmt.Sprintf("fatal: contract of %s: keeps %s: %v", e.rootCtr.Name, ks.Text, err))
			}
			e.assumes["assumed (tree shape / no aliasing): a call of "+n+" in "+e.rootCtr.Name+" does not write "+ks.Text] = true
			switch t := unalias(v.T).Underlying().(type) {
			case *types.Map:
				dn, ds, vn, vs := e.mapNames(t)
				ln, ls := e.mapLenName(t)
				for _, c := range [][2]string{{dn, ds}, {vn, vs}, {ln, ls}} {
					e.assume(Eq(Select(e.comp(cc.st, c[0], c[1]), v.Term), Select(e.comp(pre, c[0], c[1]), v.Term)), "")
				}
			case *types.Slice:
				an, aso := e.arrName(t.Elem())
				e.assume(Eq(Select(e.comp(cc.st, an, aso), app("s_base", v.Term)), Select(e.comp(pre, an, aso), app("s_base", v.Term))), "")
			default:
				panic(fmt.Sprintf("fatal: contract of %s: keeps %s: not a map or slice", e.rootCtr.Name, ks.Text))
			}
		}
	}
}

// recordFailStop: `failstop Callee, ...` of the root contract — remember the error result of the call; the obligations are
// generated at loop back edges, early loop exits and at the function's exit (failStopAtEdge / failStopAtExit).
func (e *Exec) recordFailStop(cc *callCtx, v Val) {
	if cc.f != e.rootFrame || e.rootCtr == nil || (len(e.rootCtr.FailStop) == 0 && len(e.rootCtr.RecordFail) == 0) || e.discovery > 0 {
		return
	}
	for _, n := range cc.names {
		props, ok := e.rootCtr.FailStop[n]
		var rec *RecordFailSpec
		if !ok {
			if rec = e.rootCtr.RecordFail[n]; rec == nil {
				continue
			}
			props = rec.Props
		}
		vals := v.Tup
		if len(vals) == 0 {
			vals = []Val{v}
		}
		last := vals[len(vals)-1]
		if e.reg.sortOf(last.T) != "Any" {
			panic(fmt.Sprintf("fatal: contract of %s: failstop %s: its last result is not an error", e.rootCtr.Name, n))
		}
		e.failSeq++
		e.pendingFail = append(e.pendingFail, pendingFail{record: rec, site: fmt.Sprintf("%s.%d", n, e.failSeq), props: props, err: last.Term, reach: cc.reach, block: cc.b})
		return
	}
}

// failStopAtEdge: leaving the current iteration of a loop (back edge or early exit) with a failed fail-stop call behind us.
func (e *Exec) failStopAtEdge(f *Frame, li *loopInfo, cond Term, what string) {
	if f != e.rootFrame || e.discovery > 0 {
		return
	}
	for _, p := range e.pendingFail {
		if !li.blocks[p.block] || p.record != nil {
			continue
		}
		e.oblige("failstop", p.site+"."+what, p.props, And(cond, p.reach), Eq(p.err, "nil_any"),
			fmt.Sprintf("a failed call of %s does not stop the function: loop %d goes on (%s)", p.site, li.ordinal, what), "failstop "+p.site)
	}
}

// failStopAtExit: the function returns although a fail-stop call failed: the error result must be non-nil.
func (e *Exec) failStopAtExit(reach Term, retErr Term) {
	if e.discovery > 0 {
		return
	}
	for _, p := range e.pendingFail {
		if p.record != nil {
			continue
		}
		e.oblige("failstop", p.site+".return", p.props, And(reach, p.reach, Not(Eq(p.err, "nil_any"))), Not(Eq(retErr, "nil_any")),
			fmt.Sprintf("a failed call of %s must make the function return a non-nil error", p.site), "failstop "+p.site)
	}
}

// recordFailAtBackEdge: `recordfail F unless P… : errs` — a call of F that failed with a non-benign error in this iteration must
// have made the accumulator slice grow before the loop goes on to the next element (so that the failure ends up in the
// aggregate error the function returns, while the other elements are still processed).
func (e *Exec) recordFailAtBackEdge(f *Frame, li *loopInfo, latch *ssa.BasicBlock, cond Term) {
	if f != e.rootFrame || e.discovery > 0 {
		return
	}
	for _, p := range e.pendingFail {
		if p.record == nil || !li.blocks[p.block] {
			continue
		}
		var phi *ssa.Phi
		for _, ins := range li.header.Instrs {
			ph, ok := ins.(*ssa.Phi)
			if !ok {
				break
			}
			if ph.Comment == p.record.Accum {
				phi = ph
			}
		}
		if phi == nil {
			e.oblige("recordfail", p.site, p.props, cond, "false", "accumulator "+p.record.Accum+" is not carried by loop "+fmt.Sprint(li.ordinal), "recordfail "+p.site)
			continue
		}
		oldV := f.vals[phi]
		newV := e.val(f, phi.Edges[predIndex(li.header, latch)])
		var benign []Term
		for _, b := range p.record.Benign {
			benign = append(benign, e.errPred(b, p.err))
		}
		failed := And(cond, p.reach, Not(Eq(p.err, "nil_any")), Not(Or(benign...)))
		e.oblige("recordfail", p.site, p.props, failed, app(">", app("s_len", newV.Term), app("s_len", oldV.Term)),
			fmt.Sprintf("a call of %s failed with an error that is not one of the tolerated ones (%s) and was not recorded in %s before the next element", p.site, strings.Join(p.record.Benign, ", "), p.record.Accum),
			"recordfail "+p.site)
	}
}
