package main

// Assumed contracts of external dependencies (the trusted base) and the abstract object model.

import (
	"fmt"
	"go/ast"
	"go/types"
	"regexp"
	"strings"
)

type specFn func(e *Exec, cc *callCtx) Val
type observerFn func(e *Exec, st *State, recv Val, args []Val) (Val, error)
type specFuncFn func(e *Exec, env *Env, args []Val) (Val, error)

var specTable = map[string]specFn{}
var observers = map[string]observerFn{}
var specFuncs = map[string]specFuncFn{}

// receiver types treated as "API objects" with abstract metadata observers
var objectLike = map[string]bool{
	"k8s.io/apimachinery/pkg/apis/meta/v1/unstructured.Unstructured": true,
	"k8s.io/apimachinery/pkg/apis/meta/v1.Object":                    true,
	"sigs.k8s.io/controller-runtime/pkg/client.Object":               true,
	"k8s.io/apimachinery/pkg/runtime.Object":                         true,
	"k8s.io/apimachinery/pkg/runtime.Unstructured":                   true,
}

var methodKeyRe = regexp.MustCompile(`^\(\*?([^()]+)\)\.(\w+)$`)

type scalarObs struct {
	comp string
	sort string
}

var scalarObservers = map[string]scalarObs{
	"GetName":            {"OM_name", "String"},
	"GetNamespace":       {"OM_namespace", "String"},
	"GetUID":             {"OM_uid", "String"},
	"GetKind":            {"OM_kind", "String"},
	"GetAPIVersion":      {"OM_apiVersion", "String"},
	"GetResourceVersion": {"OM_resourceVersion", "String"},
	"GetGeneration":      {"OM_generation", "Int"},
	"GetDeletionTimestamp": {"OM_delts", "Int"},
	"GetGenerateName":    {"OM_generateName", "String"},
}

var scalarSetters = map[string]string{
	"SetName": "GetName", "SetNamespace": "GetNamespace", "SetUID": "GetUID", "SetKind": "GetKind",
	"SetAPIVersion": "GetAPIVersion", "SetResourceVersion": "GetResourceVersion", "SetGeneration": "GetGeneration",
	"SetDeletionTimestamp": "GetDeletionTimestamp", "SetGenerateName": "GetGenerateName",
}

func (e *Exec) omComp(st *State, name, elemSort string) (Term, string) {
	so := "(Array Int " + elemSort + ")"
	return e.comp(st, name, so), so
}

func methodResultType(recvT types.Type, method string) types.Type {
	obj, _, _ := types.LookupFieldOrMethod(recvT, true, nil, method)
	if f, ok := obj.(*types.Func); ok {
		res := f.Type().(*types.Signature).Results()
		if res.Len() == 1 {
			return res.At(0).Type()
		}
		return res
	}
	return nil
}

func init() {
	for name, so := range scalarObservers {
		name, so := name, so
		observers[name] = func(e *Exec, st *State, recv Val, args []Val) (Val, error) {
			rt := methodResultType(recv.T, name)
			if rt == nil {
				if so.sort == "Int" {
					rt = tInt
				} else {
					rt = tString
				}
			}
			c, _ := e.omComp(st, so.comp, so.sort)
			return Val{T: rt, Term: Select(c, e.refOfVal(recv))}, nil
		}
	}
	// labels / annotations as values inside contracts: label(o, k), hasLabel(o, k)
	for _, la := range []string{"labels", "annotations"} {
		la := la
		specFuncs[la[:len(la)-1]] = func(e *Exec, env *Env, args []Val) (Val, error) {
			v, _ := e.omComp(env.cur, "OM_"+la+"_v", "(Array String String)")
			d, _ := e.omComp(env.cur, "OM_"+la+"_d", "(Array String Bool)")
			r := e.refOfVal(args[0])
			return Val{T: tString, Term: Ite(Select(Select(d, r), args[1].Term), Select(Select(v, r), args[1].Term), `""`)}, nil
		}
		specFuncs["has"+strings.ToUpper(la[:1])+la[1:len(la)-1]] = func(e *Exec, env *Env, args []Val) (Val, error) {
			d, _ := e.omComp(env.cur, "OM_"+la+"_d", "(Array String Bool)")
			return Val{T: tBool, Term: Select(Select(d, e.refOfVal(args[0])), args[1].Term)}, nil
		}
		// same labels(o1, o2): labelsEq(a, b)
		specFuncs[la+"Eq"] = func(e *Exec, env *Env, args []Val) (Val, error) {
			v, _ := e.omComp(env.cur, "OM_"+la+"_v", "(Array String String)")
			d, _ := e.omComp(env.cur, "OM_"+la+"_d", "(Array String Bool)")
			a, b := e.refOfVal(args[0]), e.refOfVal(args[1])
			e.nfresh++
			kq := fmt.Sprintf("kq%d", e.nfresh)
			return Val{T: tBool, Term: And(Eq(Select(d, a), Select(d, b)),
				fmt.Sprintf("(forall ((%s String)) (=> (select %s %s) (= (select %s %s) (select %s %s))))", kq, Select(d, a), kq, Select(v, a), kq, Select(v, b), kq))}, nil
		}
	}
	specFuncs["ContainsFinalizer"] = func(e *Exec, env *Env, args []Val) (Val, error) {
		c, _ := e.omComp(env.cur, "OM_finset", "(Array String Bool)")
		return Val{T: tBool, Term: Select(Select(c, e.refOfVal(args[0])), args[1].Term)}, nil
	}
	specFuncs["hasFin"] = specFuncs["ContainsFinalizer"]
	specFuncs["finAt"] = func(e *Exec, env *Env, args []Val) (Val, error) {
		c, _ := e.omComp(env.cur, "OM_fins_arr", "(Array Int String)")
		return Val{T: tString, Term: Select(Select(c, e.refOfVal(args[0])), args[1].Term)}, nil
	}
	specFuncs["finLen"] = func(e *Exec, env *Env, args []Val) (Val, error) {
		c, _ := e.omComp(env.cur, "OM_fins_len", "Int")
		return Val{T: tInt, Term: Select(c, e.refOfVal(args[0]))}, nil
	}
	for _, p := range []string{"IsNotFound", "IsConflict", "IsAlreadyExists", "IsGone", "IsTooManyRequests"} {
		p := p
		specFuncs[p] = func(e *Exec, env *Env, args []Val) (Val, error) {
			return Val{T: tBool, Term: e.errPred(p, args[0].Term)}, nil
		}
	}
	// controller owner reference of an object: hasCtrl(o), ctrlUID(o)
	specFuncs["hasCtrl"] = func(e *Exec, env *Env, args []Val) (Val, error) {
		c, _ := e.omComp(env.cur, "OM_ctrl_has", "Bool")
		return Val{T: tBool, Term: Select(c, e.refOfVal(args[0]))}, nil
	}
	specFuncs["ctrlUID"] = func(e *Exec, env *Env, args []Val) (Val, error) {
		c, _ := e.omComp(env.cur, "OM_ctrl_uid", "String")
		return Val{T: tString, Term: Select(c, e.refOfVal(args[0]))}, nil
	}
	specFuncs["ref"] = func(e *Exec, env *Env, args []Val) (Val, error) {
		return Val{T: tInt, Term: e.refOfVal(args[0])}, nil
	}
	specFuncs["str"] = func(e *Exec, env *Env, args []Val) (Val, error) {
		if e.reg.sortOf(args[0].T) != "String" {
			return Val{}, fmt.Errorf("str(): not a string-like value")
		}
		return Val{T: tString, Term: args[0].Term}, nil
	}
	specFuncs["fresh"] = func(e *Exec, env *Env, args []Val) (Val, error) {
		return Val{T: tBool, Term: app(">", e.writeTargetRef(args[0]), e.allocCtr(env.old))}, nil
	}
}

// errPred: uninterpreted predicate on error values, false on nil.
func (e *Exec) errPred(name string, err Term) Term {
	fn := "err_" + name
	if !e.declared[fn] {
		e.declFun(fn, []string{"Any"}, "Bool")
		if e.inQuant == 0 {
			e.assume(Not(app(fn, "nil_any")), "")
		}
	}
	return app(fn, err)
}

func specByPattern(key string) specFn {
	if strings.HasPrefix(key, "k8s.io/utils/ptr.To[") {
		// ptr.To(v): a fresh cell holding v
		return func(e *Exec, cc *callCtx) Val {
			el := deref(cc.resT)
			r := e.freshRef(cc.st, "ptrTo")
			n, so := e.heapName(el)
			e.setComp(cc.st, n, so, Store(e.comp(cc.st, n, so), r, e.asTerm(cc.args[0])))
			return Val{T: cc.resT, Term: r}
		}
	}
	isZcache := strings.HasPrefix(key, "(*zgo.at/zcache/v2.Cache[") || strings.HasPrefix(key, "(*zgo.at/zcache/v2.cache[")
	if isZcache && strings.HasSuffix(key, ").Get") {
		// a cache shared with concurrent calls and subject to expiry: every Get may return anything
		// that satisfies the cache's entry invariant
		return func(e *Exec, cc *callCtx) Val {
			v := e.havocVal(cc.resT, cc.f.prefix+"cacheGet")
			e.refBoundNew(cc.st, v)
			if len(v.Tup) == 2 {
				for _, t := range e.entryInvTerms(cc.st, v.Tup[0]) {
					e.assume(Implies(v.Tup[1].Term, t.term), "entry invariant of the cache")
				}
			}
			return v
		}
	}
	if isZcache && (strings.HasSuffix(key, ").Set") || strings.HasSuffix(key, ").SetWithExpire")) {
		return func(e *Exec, cc *callCtx) Val {
			if len(cc.args) >= 3 {
				for _, t := range e.entryInvTerms(cc.st, cc.args[2]) {
					e.oblige("entry-inv", "Set", mergeProps(t.cl.Props, e.rootProps()), cc.reach, t.term, "value stored in the cache satisfies its entry invariant: "+t.cl.Text, "entry-invariant "+t.cl.Text)
				}
			}
			return Val{T: cc.resT, Term: "0"}
		}
	}
	if strings.HasPrefix(key, "zgo.at/zcache/v2.New[") {
		return func(e *Exec, cc *callCtx) Val {
			return Val{T: cc.resT, Term: e.freshRef(cc.st, "zcache")}
		}
	}
	m := methodKeyRe.FindStringSubmatch(key)
	if m == nil {
		return nil
	}
	recvT, method := m[1], m[2]
	if !objectLike[recvT] {
		return nil
	}
	if so, ok := scalarObservers[method]; ok {
		return func(e *Exec, cc *callCtx) Val {
			e.nilRecv(cc, method)
			c, _ := e.omComp(cc.st, so.comp, so.sort)
			v := Val{T: cc.resT, Term: e.define(cc.f.prefix+method, so.sort, Select(c, e.refOfVal(cc.args[0])))}
			if method == "GetDeletionTimestamp" {
				e.assume(And(app(">=", v.Term, "0"), app("<=", v.Term, e.allocCtr(cc.st))), "")
			}
			return v
		}
	}
	if getter, ok := scalarSetters[method]; ok {
		so := scalarObservers[getter]
		return func(e *Exec, cc *callCtx) Val {
			e.nilRecv(cc, method)
			r := e.refOfVal(cc.args[0])
			e.frameWriteRef(cc.f, cc.st, cc.reach, r, method)
			c, cs := e.omComp(cc.st, so.comp, so.sort)
			e.setComp(cc.st, so.comp, cs, Store(c, r, e.asTerm(cc.args[1])))
			return Val{T: cc.resT, Term: "0"}
		}
	}
	switch method {
	case "GetLabels", "GetAnnotations":
		la := strings.ToLower(method[3:])
		return func(e *Exec, cc *callCtx) Val { return e.getStringMap(cc, la) }
	case "SetLabels", "SetAnnotations":
		la := strings.ToLower(method[3:])
		return func(e *Exec, cc *callCtx) Val { return e.setStringMap(cc, la) }
	case "GetFinalizers":
		return func(e *Exec, cc *callCtx) Val { return e.getFinalizers(cc) }
	case "GetOwnerReferences":
		return func(e *Exec, cc *callCtx) Val { return e.getOwnerRefs(cc) }
	case "SetOwnerReferences":
		return func(e *Exec, cc *callCtx) Val { return e.setOwnerRefs(cc) }
	case "DeepCopy":
		return func(e *Exec, cc *callCtx) Val { return e.deepCopyObject(cc) }
	case "UnstructuredContent":
		return func(e *Exec, cc *callCtx) Val {
			e.nilRecv(cc, method)
			// alias of the Object field
			a := e.addrOf(cc.args[0])
			na := &Addr{Kind: a.Kind, Root: a.Root, Ref: a.Ref, Path: []int{0}}
			content := e.define(cc.f.prefix+"content", "Int", e.load(cc.st, na).Term)
			// the content map and the abstract observers describe the same object
			e.declFun("content_owner", []string{"Int"}, "Int")
			e.assume(Implies(Not(Eq(content, "0")), Eq(app("content_owner", content), a.Ref)), "an object's content map belongs to that object")
			if isAtom(content) {
				e.contentOwner[content] = a.Ref
			}
			return Val{T: cc.resT, Term: content}
		}
	case "GroupVersionKind":
		return func(e *Exec, cc *callCtx) Val {
			e.nilRecv(cc, method)
			return e.uninterp("obj_gvk", []Val{{T: tString, Term: e.scalarObs(cc.st, "GetAPIVersion", cc.args[0])}, {T: tString, Term: e.scalarObs(cc.st, "GetKind", cc.args[0])}}, cc.resT)
		}
	}
	return nil
}

func (e *Exec) scalarObs(st *State, method string, recv Val) Term {
	so := scalarObservers[method]
	c, _ := e.omComp(st, so.comp, so.sort)
	return Select(c, e.refOfVal(recv))
}

// nilRecv: a method of *Unstructured called on a nil pointer panics (the getters dereference u.Object).
func (e *Exec) nilRecv(cc *callCtx, method string) {
	recv := cc.args[0]
	if e.reg.sortOf(recv.T) == "Any" {
		// invoke on interface holding a typed nil pointer
		e.safety("nilptr", Not(Eq(app("ref", recv.Term), "0")), cc.reach, "method "+method+" called on a nil object")
		return
	}
	e.safety("nilptr", Not(Eq(e.asTerm(recv), "0")), cc.reach, "method "+method+" called on a nil *Unstructured")
}

var tStringMap = types.NewMap(tString, tString)

func (e *Exec) getStringMap(cc *callCtx, la string) Val {
	e.nilRecv(cc, "Get"+la)
	st := cc.st
	r := e.refOfVal(cc.args[0])
	d, _ := e.omComp(st, "OM_"+la+"_d", "(Array String Bool)")
	v, _ := e.omComp(st, "OM_"+la+"_v", "(Array String String)")
	l, _ := e.omComp(st, "OM_"+la+"_n", "Int")
	m := e.fresh("ref_"+cc.f.prefix+la, "Int")
	a := e.allocCtr(st)
	// either nil (only when there are no entries) or a fresh copy
	emptyDom := "((as const (Array String Bool)) false)"
	e.assume(Or(And(Eq(m, "0"), Eq(Select(d, r), emptyDom)), app(">", m, a)), "Get"+la+" returns a fresh copy (nil only if empty)")
	na := e.define("ALLOC", "Int", Ite(Eq(m, "0"), a, m))
	st.comps[allocComp] = na
	dn, ds, vn, vs := e.mapNames(tStringMap)
	ln, ls := e.mapLenName(tStringMap)
	e.setComp(st, dn, ds, Store(e.comp(st, dn, ds), m, Select(d, r)))
	e.setComp(st, vn, vs, Store(e.comp(st, vn, vs), m, Select(v, r)))
	e.setComp(st, ln, ls, Store(e.comp(st, ln, ls), m, Select(l, r)))
	e.assume(app(">=", Select(l, r), "0"), "")
	e.assume(Eq(Eq(Select(l, r), "0"), Eq(Select(d, r), emptyDom)), "")
	return Val{T: cc.resT, Term: m}
}

func (e *Exec) setStringMap(cc *callCtx, la string) Val {
	e.nilRecv(cc, "Set"+la)
	st := cc.st
	r := e.refOfVal(cc.args[0])
	m := cc.args[1].Term
	e.frameWriteRef(cc.f, st, cc.reach, r, "Set"+la)
	d, ds := e.omComp(st, "OM_"+la+"_d", "(Array String Bool)")
	v, vs := e.omComp(st, "OM_"+la+"_v", "(Array String String)")
	l, lso := e.omComp(st, "OM_"+la+"_n", "Int")
	dn, dso, vn, vso := e.mapNames(tStringMap)
	ln, ls := e.mapLenName(tStringMap)
	e.setComp(st, "OM_"+la+"_d", ds, Store(d, r, Select(e.comp(st, dn, dso), m)))
	e.setComp(st, "OM_"+la+"_v", vs, Store(v, r, Select(e.comp(st, vn, vso), m)))
	e.setComp(st, "OM_"+la+"_n", lso, Store(l, r, Select(e.comp(st, ln, ls), m)))
	return Val{T: cc.resT, Term: "0"}
}

func (e *Exec) getFinalizers(cc *callCtx) Val {
	e.nilRecv(cc, "GetFinalizers")
	st := cc.st
	r := e.refOfVal(cc.args[0])
	arr, _ := e.omComp(st, "OM_fins_arr", "(Array Int String)")
	ln, _ := e.omComp(st, "OM_fins_len", "Int")
	set, _ := e.omComp(st, "OM_finset", "(Array String Bool)")
	base := e.freshRef(st, "fins")
	n, so := e.arrName(tString)
	e.setComp(st, n, so, Store(e.comp(st, n, so), base, Select(arr, r)))
	l := Select(ln, r)
	e.assume(app(">=", l, "0"), "")
	// list view and set view of the finalizers agree
	e.assume(fmt.Sprintf("(forall ((iq Int)) (! (=> (and (<= 0 iq) (< iq %s)) (select %s (select %s iq))) :pattern ((select %s iq))))", l, Select(set, r), Select(arr, r), Select(arr, r)), "finalizer list/set agreement")
	e.declFun("fin_idx", []string{"Int", "String"}, "Int")
	e.assume(fmt.Sprintf("(forall ((sq String)) (! (=> (select %s sq) (and (<= 0 (fin_idx %s sq)) (< (fin_idx %s sq) %s) (= (select %s (fin_idx %s sq)) sq))) :pattern ((select %s sq))))", Select(set, r), r, r, l, Select(arr, r), r, Select(set, r)), "finalizer list/set agreement")
	return Val{T: cc.resT, Term: e.define(cc.f.prefix+"fins", "Slice", app("mk_slice", base, "0", l, l))}
}

func (e *Exec) ownerRefType(cc *callCtx) types.Type {
	if sl, ok := unalias(cc.resT).Underlying().(*types.Slice); ok {
		return sl.Elem()
	}
	for _, a := range cc.args {
		if sl, ok := unalias(a.T).Underlying().(*types.Slice); ok {
			return sl.Elem()
		}
	}
	panic("owner reference type not found")
}

func (e *Exec) getOwnerRefs(cc *callCtx) Val {
	e.nilRecv(cc, "GetOwnerReferences")
	st := cc.st
	r := e.refOfVal(cc.args[0])
	et := e.ownerRefType(cc)
	es := e.reg.sortOf(et)
	arr, _ := e.omComp(st, "OM_owners_arr", "(Array Int "+es+")")
	ln, _ := e.omComp(st, "OM_owners_len", "Int")
	base := e.freshRef(st, "owners")
	n, so := e.arrName(et)
	e.setComp(st, n, so, Store(e.comp(st, n, so), base, Select(arr, r)))
	l := Select(ln, r)
	e.assume(app(">=", l, "0"), "")
	return Val{T: cc.resT, Term: e.define(cc.f.prefix+"owners", "Slice", app("mk_slice", base, "0", l, l))}
}

func (e *Exec) setOwnerRefs(cc *callCtx) Val {
	e.nilRecv(cc, "SetOwnerReferences")
	st := cc.st
	r := e.refOfVal(cc.args[0])
	s := cc.args[1].Term
	et := e.ownerRefType(cc)
	es := e.reg.sortOf(et)
	e.frameWriteRef(cc.f, st, cc.reach, r, "SetOwnerReferences")
	arr, as := e.omComp(st, "OM_owners_arr", "(Array Int "+es+")")
	ln, ls := e.omComp(st, "OM_owners_len", "Int")
	n, so := e.arrName(et)
	row := e.fresh(cc.f.prefix+"ownrow", "(Array Int "+es+")")
	src := Select(e.comp(st, n, so), app("s_base", s))
	{
		off := app("s_off", s)
		e.assumeForallInt("true", func(i Term) Term { return Eq(Select(row, i), Select(src, app("+", off, i))) },
			func(i Term) Term { return Select(row, i) }, "SetOwnerReferences copies the slice")
	}
	e.setComp(st, "OM_owners_arr", as, Store(arr, r, row))
	e.setComp(st, "OM_owners_len", ls, Store(ln, r, app("s_len", s)))
	// the controller reference view changes with the list
	for _, c := range []string{"OM_ctrl_has", "OM_ctrl_uid"} {
		if _, ok := e.compSort[c]; ok {
			e.havocCompAt(st, c, r)
		}
	}
	return Val{T: cc.resT, Term: "0"}
}

// havocCompAt: component[r] becomes unknown, other indices keep their value.
func (e *Exec) havocCompAt(st *State, name string, r Term) {
	so := e.compSort[name]
	cur := e.comp(st, name, so)
	nv := e.fresh(name+"_at", elemSortOfArray(so))
	e.setComp(st, name, so, Store(cur, r, nv))
}

var omAll = []string{"OM_name", "OM_namespace", "OM_uid", "OM_kind", "OM_apiVersion", "OM_resourceVersion", "OM_generation", "OM_delts", "OM_generateName",
	"OM_labels_d", "OM_labels_v", "OM_labels_n", "OM_annotations_d", "OM_annotations_v", "OM_annotations_n", "OM_fins_arr", "OM_fins_len", "OM_finset",
	"OM_owners_arr", "OM_owners_len", "OM_ctrl_has", "OM_ctrl_uid", "OM_status", "OM_status_has", "OM_rest"}

// copyObjectMeta: all abstract observers of dst become those of src.
func (e *Exec) copyObjectMeta(st *State, dst, src Term) {
	for _, c := range omAll {
		so, ok := e.compSort[c]
		if !ok {
			continue
		}
		cur := e.comp(st, c, so)
		e.setComp(st, c, so, Store(cur, dst, Select(cur, src)))
	}
}

func (e *Exec) deepCopyObject(cc *callCtx) Val {
	e.nilRecvDeepCopy(cc)
	st := cc.st
	src := e.refOfVal(cc.args[0])
	// make sure the commonly used observers exist so that they are copied
	for _, so := range scalarObservers {
		e.omComp(st, so.comp, so.sort)
	}
	for _, la := range []string{"labels", "annotations"} {
		e.omComp(st, "OM_"+la+"_d", "(Array String Bool)")
		e.omComp(st, "OM_"+la+"_v", "(Array String String)")
		e.omComp(st, "OM_"+la+"_n", "Int")
	}
	e.omComp(st, "OM_finset", "(Array String Bool)")
	e.omComp(st, "OM_fins_arr", "(Array Int String)")
	e.omComp(st, "OM_fins_len", "Int")
	e.omComp(st, "OM_ctrl_has", "Bool")
	e.omComp(st, "OM_ctrl_uid", "String")
	if ot := e.W.lookupType(pkgMetaV1, "OwnerReference"); ot != nil {
		e.omComp(st, "OM_owners_arr", "(Array Int "+e.reg.sortOf(ot)+")")
		e.omComp(st, "OM_owners_len", "Int")
	}
	e.omComp(st, "OM_status", "Any")
	e.omComp(st, "OM_rest", "Int")
	dst := e.freshRef(st, "deepcopy")
	e.copyObjectMeta(st, dst, src)
	// the content map of the copy is a fresh map that is deep-equal to the source's
	if p, ok := unalias(cc.resT).Underlying().(*types.Pointer); ok {
		if _, isStruct := unalias(p.Elem()).Underlying().(*types.Struct); isStruct && strings.HasSuffix(p.Elem().String(), "Unstructured") {
			content := e.freshRef(st, "content")
			e.markDeepFresh(st, content)
			n, so := e.heapName(p.Elem())
			si := e.reg.structOf(p.Elem())
			e.setComp(st, n, so, Store(e.comp(st, n, so), dst, app(si.ctor, content)))
			e.declFun("deepcopy_of", []string{"Int"}, "Int")
			srcContent := app(si.fields[0], Select(e.comp(st, n, so), src))
			e.assume(Eq(app("deepcopy_of", content), srcContent), "")
			e.assume(And(app("<", srcContent, content), app(">=", srcContent, "0")), "references stored in the heap are allocated")
			if mt, ok := unalias(si.st.Field(0).Type()).Underlying().(*types.Map); ok {
				dn, ds, vn, vs := e.mapNames(mt)
				ln, ls := e.mapLenName(mt)
				d, v, l := e.comp(st, dn, ds), e.comp(st, vn, vs), e.comp(st, ln, ls)
				e.declDcval()
				row := e.fresh(cc.f.prefix+"dccontent", "(Array String Any)")
				srcRow := e.define(cc.f.prefix+"dcsrc", "(Array String Any)", Select(v, srcContent))
				e.assume(fmt.Sprintf("(forall ((kq String)) (! (= (select %s kq) (dcval (select %s kq))) :pattern ((select %s kq)) :pattern ((select %s kq))))", row, srcRow, row, srcRow), "DeepCopy copies every value of the content map deeply")
				e.setComp(st, dn, ds, Store(d, content, Select(d, srcContent)))
				e.setComp(st, vn, vs, Store(v, content, row))
				e.setComp(st, ln, ls, Store(l, content, Select(l, srcContent)))
			}
		}
	}
	if e.reg.sortOf(cc.resT) == "Any" {
		return Val{T: cc.resT, Term: e.define(cc.f.prefix+"dc", "Any", app("box_ref", app("tag_ref", cc.args[0].Term), dst))}
	}
	return Val{T: cc.resT, Term: dst}
}

func (e *Exec) nilRecvDeepCopy(cc *callCtx) {
	// (*Unstructured).DeepCopy returns nil for a nil receiver: no panic; model: result non-nil requires non-nil input
	recv := cc.args[0]
	if e.reg.sortOf(recv.T) != "Any" {
		e.safety("nilptr", Not(Eq(e.asTerm(recv), "0")), cc.reach, "DeepCopy of a nil object (result would be nil)")
	}
}

// frameWriteRef: a write to (the footprint of) object/map `r`. Cached objects must never be written.
func (e *Exec) frameWriteRef(f *Frame, st *State, reach Term, r Term, what string) {
	e.frameWriteRefIf(f, st, reach, r, what)
}

func (e *Exec) frameWriteRefIf(f *Frame, st *State, reach Term, r Term, what string) {
	if e.rootCtr == nil || e.discovery > 0 {
		return
	}
	if w := e.rootCtr.Writes; w != nil && !w.Assumed {
		e.oblige("frame", "writes", w.Props, reach, e.writeAllowed(r), "write outside the declared footprint (writes "+w.Text+"): "+what, "writes "+w.Text)
	}
	if len(e.rootCtr.FrameProps) == 0 {
		return
	}
	c := e.comp(st, "CACHED", "(Array Int Bool)")
	e.oblige("frame", "write", e.rootCtr.FrameProps, reach, Not(Select(c, r)), "write to an object held in a shared informer cache: "+what, "cached objects are never written")
}

func (e *Exec) frameWrite(f *Frame, st *State, reach Term, a *Addr, what string) {
	if a.Kind == addrHeap {
		e.frameWriteRefIf(f, st, reach, a.Ref, what)
	} else {
		e.frameWriteRefIf(f, st, reach, a.Ref, what)
	}
}

// writeAllowed: r was allocated during this activation, or is one of the declared write targets.
func (e *Exec) writeAllowed(r Term) Term {
	alts := []Term{app(">", r, e.compInit[allocComp])}
	for _, w := range e.rootWrites {
		alts = append(alts, w.contains(r))
	}
	return Or(alts...)
}

// writeTarget: a single reference or the set of references stored in a container (at evaluation time).
type writeTarget struct {
	single Term
	member func(r Term) Term
	text   string
	// ownCell: for a single target that points to a plain struct (not an object with a modelled footprint),
	// the only pointee component it can denote; references are typed, so it is no cell of another H_ component
	ownCell string
}

// appliesTo: can this target denote a cell of component comp?
func (w writeTarget) appliesTo(comp string) bool {
	if w.ownCell == "" || !strings.HasPrefix(comp, "H_") {
		return true
	}
	return comp == w.ownCell
}

func (w writeTarget) contains(r Term) Term {
	if w.member != nil {
		return w.member(r)
	}
	return Eq(r, w.single)
}

// evalWriteTargets evaluates a writes clause in env (state env.cur).
func (e *Exec) evalWriteTargets(env *Env, wc *WritesClause) ([]writeTarget, error) {
	var out []writeTarget
	for i, ex := range wc.Exprs {
		v, err := e.eval(env, ex)
		if err != nil {
			return nil, fmt.Errorf("writes %s: %v", wc.Texts[i], err)
		}
		if !wc.Elems[i] {
			wt := writeTarget{single: e.writeTargetRef(v), text: wc.Texts[i]}
			if el := deref(v.T); el != nil && e.reg.sortOf(v.T) == "Int" {
				if _, isStruct := unalias(el).Underlying().(*types.Struct); isStruct && !strings.HasSuffix(el.String(), "unstructured.Unstructured") {
					wt.ownCell, _ = e.heapName(el)
				}
			}
			out = append(out, wt)
			continue
		}
		st := env.cur
		switch ct := unalias(v.T).Underlying().(type) {
		case *types.Map:
			ks := e.reg.sortOf(ct.Key())
			has := func(k Term) Term { return e.mapHas(st, ct, v.Term, k) }
			val := func(k Term) Term {
				_, _, vn, vs := e.mapNames(ct)
				return Select(Select(e.comp(st, vn, vs), v.Term), k)
			}
			elemRef := func(x Term) Term {
				if _, ok := unalias(ct.Elem()).Underlying().(*types.Slice); ok {
					return app("s_base", x)
				}
				if e.reg.sortOf(ct.Elem()) == "Any" {
					return app("ref", x)
				}
				return x
			}
			out = append(out, writeTarget{text: wc.Texts[i], member: func(r Term) Term {
				e.nfresh++
				k := fmt.Sprintf("wk%d", e.nfresh)
				return fmt.Sprintf("(exists ((%s %s)) (and %s (= %s %s)))", k, ks, has(k), elemRef(val(k)), r)
			}})
		case *types.Slice:
			n, so := e.arrName(ct.Elem())
			row := Select(e.comp(st, n, so), app("s_base", v.Term))
			isAny := e.reg.sortOf(ct.Elem()) == "Any"
			out = append(out, writeTarget{text: wc.Texts[i], member: func(r Term) Term {
				e.nfresh++
				k := fmt.Sprintf("wi%d", e.nfresh)
				el := Select(row, app("+", app("s_off", v.Term), k))
				if isAny {
					el = app("ref", el)
				}
				return fmt.Sprintf("(exists ((%s Int)) (and (<= 0 %s) (< %s %s) (= %s %s)))", k, k, k, app("s_len", v.Term), el, r)
			}})
		default:
			return nil, fmt.Errorf("writes %s: elems() needs a map or slice", wc.Texts[i])
		}
	}
	return out, nil
}

// entryInvTerms: the entry invariants declared for the (static) type of v, evaluated with v bound.
func (e *Exec) entryInvTerms(st *State, v Val) []ginvInst {
	var out []ginvInst
	for _, ei := range entryInvs {
		scope := e.W.anyFuncOf(ei.Pkg)
		if scope == nil {
			continue
		}
		env := &Env{vars: map[string]Val{}, cur: st, old: st, fn: scope, lets: map[string]ast.Expr{}}
		t, err := e.resolveType(env, ei.TypeExpr)
		if err != nil || !types.Identical(unalias(t), unalias(v.T)) {
			continue
		}
		env.vars["v"] = v
		term, err := e.evalBool(env, ei.Clause.Expr)
		if err != nil {
			panic(fmt.Sprintf("fatal: entry-invariant %s: %v", ei.Clause.Text, err))
		}
		out = append(out, ginvInst{ei.Clause, term})
	}
	return out
}

// declDcval: the deep copy of a JSON value as an uninterpreted function (nil stays nil).
func (e *Exec) declDcval() {
	if !e.declared["dcval"] {
		e.declFun("dcval", []string{"Any"}, "Any")
		if e.inQuant == 0 {
			e.assume(Eq(app("dcval", "nil_any"), "nil_any"), "the deep copy of nil is nil")
		}
	}
}

// markDeepFresh: ghost flag of a JSON map that was produced by a deep copy (DeepCopy / DeepCopyJSON): it and everything reachable
// from it is private to the copier, so nested writes (SetNestedField with a path) cannot reach a cached object.
func (e *Exec) markDeepFresh(st *State, ref Term) {
	c := e.comp(st, "DEEPFRESH", "(Array Int Bool)")
	e.setComp(st, "DEEPFRESH", "(Array Int Bool)", Store(c, ref, "true"))
}
