package main

import (
	"fmt"
	"go/ast"
	"go/token"
	"go/types"
	"strings"

	"golang.org/x/tools/go/ssa"
)

func (e *Exec) oblige(kind, site string, props []string, pc, goal Term, desc, clause string) {
	if e.discovery > 0 {
		return
	}
	goal = e.skolemizeGoal(goal)
	fn := e.rootFn
	base := fmt.Sprintf("%s#%s", funcKey(fn), kind)
	if site != "" {
		base += "@" + site
	}
	e.oblNames[base]++
	name := base
	if n := e.oblNames[base]; n > 1 {
		name = fmt.Sprintf("%s.%d", base, n)
	}
	e.obls = append(e.obls, &Obligation{Name: name, Kind: kind, Func: funcKey(fn), Props: props, PC: pc, Goal: goal,
		ItemsLen: len(e.items), Desc: desc, Pos: e.posStr(e.curPos), Clause: clause})
}

func (e *Exec) cover(site string, props []string, pc Term, desc string) {
	if e.discovery > 0 {
		return
	}
	fn := e.rootFn
	base := fmt.Sprintf("%s#cover@%s", funcKey(fn), site)
	e.oblNames[base]++
	name := base
	if n := e.oblNames[base]; n > 1 {
		name = fmt.Sprintf("%s.%d", base, n)
	}
	e.obls = append(e.obls, &Obligation{Name: name, Kind: "cover", Func: funcKey(fn), Props: props, PC: pc, Goal: "false",
		ItemsLen: len(e.items), Desc: desc, ExpectSat: true, Pos: e.posStr(e.curPos)})
}

// safety emits a no-panic obligation (if enabled for the root function) and then assumes the condition.
func (e *Exec) safety(what string, cond Term, reach Term, desc string) {
	if cond == "true" {
		return
	}
	if e.rootCtr != nil && len(e.rootCtr.SafetyProps) > 0 && e.discovery == 0 {
		e.oblige("safety", what, e.rootCtr.SafetyProps, reach, cond, desc, "no runtime panic: "+desc)
	}
	e.assume(Implies(reach, cond), "")
}

func (e *Exec) execInstr(f *Frame, b *ssa.BasicBlock, ins ssa.Instruction, st *State, reach Term) {
	defer func() {
		if r := recover(); r != nil {
			if s, ok := r.(string); ok && strings.HasPrefix(s, "fatal:") {
				panic(r)
			}
			// unsupported construct: abstract the result
			e.abstracted[f.fn.String()] = true
			e.note(fmt.Sprintf("unsupported instruction in %s: %s (%v)", f.fn.Name(), ins.String(), r))
			if v, ok := ins.(ssa.Value); ok {
				f.vals[v] = e.havocVal(v.Type(), f.prefix+v.Name())
			}
			switch ins.(type) {
			case *ssa.If, *ssa.Jump:
				e.setEdges(f, b, reach, e.fresh("havoc_cond", "Bool"))
			}
		}
	}()
	name := func(v ssa.Value) string { return f.prefix + v.Name() }
	switch x := ins.(type) {
	case *ssa.DebugRef:
		// source-level names of local variables (root function only), for use in contracts
		if f == e.rootFrame && x.IsAddr {
			if id, ok := x.Expr.(*ast.Ident); ok && id.Name != "_" {
				if v, ok := f.vals[x.X]; ok {
					e.localAddrs[id.Name] = v
				}
			}
		}
		if f == e.rootFrame && !x.IsAddr {
			if id, ok := x.Expr.(*ast.Ident); ok && id.Name != "_" {
				if v, ok := f.vals[x.X]; ok {
					e.localNames[id.Name] = v
				} else if c, ok := x.X.(*ssa.Const); ok {
					e.localNames[id.Name] = e.constVal(c)
				}
			}
		}
	case *ssa.Alloc:
		el := deref(x.Type())
		r := e.freshRef(st, x.Name())
		if arr, ok := unalias(el).Underlying().(*types.Array); ok {
			n, so := e.arrName(arr.Elem())
			h := e.comp(st, n, so)
			e.setComp(st, n, so, Store(h, r, fmt.Sprintf("((as const (Array Int %s)) %s)", e.reg.sortOf(arr.Elem()), e.reg.zero(arr.Elem()))))
		} else {
			n, so := e.heapName(el)
			h := e.comp(st, n, so)
			e.setComp(st, n, so, Store(h, r, e.reg.zero(el)))
		}
		f.vals[x] = Val{T: x.Type(), Term: r}
		e.refTyped(f.vals[x])
		if f == e.rootFrame && x.Comment != "" && x.Heap {
			// a local variable living in a cell (captured by a closure, or address taken): cur(name) reads the cell
			if _, ok := e.localAddrs[x.Comment]; !ok {
				e.localAddrs[x.Comment] = f.vals[x]
			}
		}
	case *ssa.FieldAddr:
		p := e.val(f, x.X)
		a := e.addrOf(p)
		if len(a.Path) == 0 && a.Kind == addrHeap {
			e.safety("nilptr", Not(Eq(a.Ref, "0")), reach, fmt.Sprintf("nil pointer dereference: field %s of %s", fieldName(x), x.X.Name()))
		}
		if a.Null != "" {
			e.safety("nilptr", Not(a.Null), reach, fmt.Sprintf("nil pointer dereference: field %s of %s", fieldName(x), x.X.Name()))
		}
		na := &Addr{Kind: a.Kind, Root: a.Root, Ref: a.Ref, Idx: a.Idx, Path: append(append([]int{}, a.Path...), x.Field)}
		f.vals[x] = Val{T: x.Type(), Addr: na, Term: a.Ref}
	case *ssa.Field:
		s := e.val(f, x.X)
		si := e.reg.structOf(s.T)
		f.vals[x] = Val{T: x.Type(), Term: e.define(name(x), e.reg.sortOf(x.Type()), app(si.fields[x.Field], s.Term))}
	case *ssa.IndexAddr:
		base := e.val(f, x.X)
		idx := e.val(f, x.Index)
		switch bt := unalias(base.T).Underlying().(type) {
		case *types.Slice:
			e.noteIndexTerm(idx.Term)
			e.safety("index", And(app(">=", idx.Term, "0"), app("<", idx.Term, app("s_len", base.Term))), reach, "index out of range")
			na := &Addr{Kind: addrArr, Root: bt.Elem(), Ref: app("s_base", base.Term), Idx: e.define(name(x)+"_i", "Int", app("+", app("s_off", base.Term), idx.Term))}
			f.vals[x] = Val{T: x.Type(), Addr: na, Term: na.Ref}
		case *types.Pointer:
			arr := unalias(bt.Elem()).Underlying().(*types.Array)
			e.safety("index", And(app(">=", idx.Term, "0"), app("<", idx.Term, IntLit(arr.Len()))), reach, "index out of range")
			ba := e.addrOf(base)
			if len(ba.Path) > 0 || ba.Kind != addrHeap {
				panic("array inside struct")
			}
			na := &Addr{Kind: addrArr, Root: arr.Elem(), Ref: ba.Ref, Idx: idx.Term}
			f.vals[x] = Val{T: x.Type(), Addr: na, Term: na.Ref}
		default:
			panic("IndexAddr on " + base.T.String())
		}
	case *ssa.Index:
		base := e.val(f, x.X)
		idx := e.val(f, x.Index)
		switch unalias(base.T).Underlying().(type) {
		case *types.Array:
			f.vals[x] = Val{T: x.Type(), Term: e.define(name(x), e.reg.sortOf(x.Type()), Select(base.Term, idx.Term))}
		default:
			// string indexing
			f.vals[x] = Val{T: x.Type(), Term: e.define(name(x), "Int", app("str.to_code", app("str.at", base.Term, idx.Term)))}
		}
	case *ssa.UnOp:
		e.execUnOp(f, x, st, reach)
	case *ssa.BinOp:
		f.vals[x] = e.binop(f, x, reach)
	case *ssa.Store:
		p := e.val(f, x.Addr)
		a := e.addrOf(p)
		if len(a.Path) == 0 && a.Kind == addrHeap {
			e.safety("nilptr", Not(Eq(a.Ref, "0")), reach, "nil pointer dereference in store")
		}
		if a.Null != "" {
			e.safety("nilptr", Not(a.Null), reach, "nil pointer dereference in store")
		}
		v := e.val(f, x.Val)
		e.frameWrite(f, st, reach, a, "store")
		e.store(st, a, e.asTerm(v))
		e.recordClosureStore(a, v)
	case *ssa.Phi:
	case *ssa.Jump:
		e.setEdges(f, b, reach, "true")
		e.afterBlock(f, b, st, reach)
	case *ssa.If:
		c := e.val(f, x.Cond)
		e.setEdges(f, b, reach, c.Term)
		e.afterBlock(f, b, st, reach)
	case *ssa.Return:
		var vals []Val
		for _, r := range x.Results {
			vals = append(vals, e.val(f, r))
		}
		f.rets = append(f.rets, retInfo{reach: reach, vals: vals, state: st.clone(), block: b})
		e.loopExitCheck(f, b, nil, reach, "return")
	case *ssa.Panic:
		if e.rootCtr != nil && len(e.rootCtr.SafetyProps) > 0 {
			e.oblige("safety", "panic", e.rootCtr.SafetyProps, reach, "false", "explicit panic is unreachable", "no runtime panic")
		}
	case *ssa.RunDefers:
		for i := len(f.defers) - 1; i >= 0; i-- {
			d := f.defers[i]
			cond := d.reach
			before := st.clone()
			e.execCall(f, b, d.call, d.call.Common(), nil, st, And(reach, cond))
			if cond != "true" && cond != reach {
				merged := e.mergeStates([]*State{st, before}, []Term{cond, "true"})
				st.comps = merged.comps
			}
		}
	case *ssa.Defer:
		if len(f.inLoop[b]) > 0 {
			panic("defer inside loop")
		}
		// argument values are evaluated now; they are SSA values, so evaluation at RunDefers is equivalent
		f.defers = append(f.defers, deferInfo{reach: reach, call: x})
	case *ssa.Go:
		if isForkJoin(x) {
			e.note("goroutine in " + f.fn.Name() + " joined by a WaitGroup: body executed as a call (fork/join), not interleaved")
			e.abstracted[f.fn.String()] = true
			e.execGo(f, b, x, st, reach)
		} else {
			e.note("goroutine started in " + f.fn.Name() + ": runs concurrently, its body is not part of this activation")
			e.goSite(f, b, x, st, reach)
		}
	case *ssa.Call:
		e.execCall(f, b, x, x.Common(), x, st, reach)
	case *ssa.MakeInterface:
		v := e.val(f, x.X)
		bx := e.define(name(x), "Any", e.reg.box(x.X.Type(), e.asTerm(v)))
		f.vals[x] = Val{T: x.Type(), Term: bx}
		if isRefLike(x.X.Type()) && isAtom(bx) {
			e.boxOf[bx] = e.asTerm(v)
			e.boxType[bx] = x.X.Type()
		}
		e.boxFacts(x.X.Type(), e.asTerm(v))
		if strings.HasSuffix(types.TypeString(x.X.Type(), nil), "hooks.TooManyRequestError") {
			e.assume(e.errPred("isTMR", bx), "a *TooManyRequestError is classified as such by errors.As")
		}
	case *ssa.ChangeInterface:
		v := e.val(f, x.X)
		f.vals[x] = Val{T: x.Type(), Term: v.Term}
	case *ssa.ChangeType:
		v := e.val(f, x.X)
		nv := v
		nv.T = x.Type()
		f.vals[x] = nv
	case *ssa.Convert:
		f.vals[x] = e.convert(f, x)
	case *ssa.MakeClosure:
		fn := x.Fn.(*ssa.Function)
		var bs []Val
		for _, bv := range x.Bindings {
			bs = append(bs, e.val(f, bv))
		}
		r := e.freshRef(st, "closure")
		f.vals[x] = Val{T: x.Type(), Term: r, Clo: &Closure{Fn: fn, Bindings: bs}}
	case *ssa.MakeMap:
		m := unalias(x.Type()).Underlying().(*types.Map)
		r := e.freshRef(st, "map")
		dn, ds, _, _ := e.mapNames(m)
		d := e.comp(st, dn, ds)
		e.setComp(st, dn, ds, Store(d, r, fmt.Sprintf("((as const (Array %s Bool)) false)", e.reg.sortOf(m.Key()))))
		{
			_, _, vn, vs := e.mapNames(m)
			vv := e.comp(st, vn, vs)
			e.setComp(st, vn, vs, Store(vv, r, fmt.Sprintf("((as const (Array %s %s)) %s)", e.reg.sortOf(m.Key()), e.reg.sortOf(m.Elem()), e.reg.zero(m.Elem()))))
		}
		ln, ls := e.mapLenName(m)
		l := e.comp(st, ln, ls)
		e.setComp(st, ln, ls, Store(l, r, "0"))
		f.vals[x] = Val{T: x.Type(), Term: r}
		e.refTyped(f.vals[x])
	case *ssa.MakeSlice:
		sl := unalias(x.Type()).Underlying().(*types.Slice)
		r := e.freshRef(st, "arr")
		ln := e.val(f, x.Len)
		cp := e.val(f, x.Cap)
		e.safety("makeslice", And(app(">=", ln.Term, "0"), app(">=", cp.Term, ln.Term)), reach, "makeslice: len out of range")
		n, so := e.arrName(sl.Elem())
		h := e.comp(st, n, so)
		e.setComp(st, n, so, Store(h, r, fmt.Sprintf("((as const (Array Int %s)) %s)", e.reg.sortOf(sl.Elem()), e.reg.zero(sl.Elem()))))
		f.vals[x] = Val{T: x.Type(), Term: e.define(name(x), "Slice", app("mk_slice", r, "0", ln.Term, cp.Term))}
	case *ssa.MakeChan:
		r := e.freshRef(st, "chan")
		c := e.comp(st, "CLOSED", "(Array Int Bool)")
		e.setComp(st, "CLOSED", "(Array Int Bool)", Store(c, r, "false"))
		f.vals[x] = Val{T: x.Type(), Term: r}
	case *ssa.Slice:
		f.vals[x] = e.sliceOp(f, x, st, reach)
	case *ssa.Lookup:
		f.vals[x] = e.lookup(f, x, st, reach)
	case *ssa.MapUpdate:
		m := e.val(f, x.Map)
		k := e.val(f, x.Key)
		v := e.val(f, x.Value)
		mt := unalias(m.T).Underlying().(*types.Map)
		e.noteKeyTerm(k.Term, e.reg.sortOf(mt.Key()))
		e.safety("nilmap", Not(Eq(m.Term, "0")), reach, "assignment to entry in nil map")
		e.frameWriteRef(f, st, reach, m.Term, "map update")
		e.mapStore(st, mt, m.Term, k.Term, e.asTerm(v))
	case *ssa.Range:
		xv := e.val(f, x.X)
		_, isMap := unalias(xv.T).Underlying().(*types.Map)
		ri := rangeInfo{x: xv, isMap: isMap}
		if isMap {
			mt := unalias(xv.T).Underlying().(*types.Map)
			dn, ds, _, _ := e.mapNames(mt)
			ri.dom0 = e.define(f.prefix+x.Name()+"_dom0", fmt.Sprintf("(Array %s Bool)", e.reg.sortOf(mt.Key())), Select(e.comp(st, dn, ds), xv.Term))
		}
		f.rangeOf[x] = ri
		f.vals[x] = Val{T: x.Type(), Term: "0"}
		if isMap {
			// ghost: set of visited keys, reset at Range
			mt := unalias(xv.T).Underlying().(*types.Map)
			vn := e.visitedName(f, x)
			e.compSort[vn] = fmt.Sprintf("(Array %s Bool)", e.reg.sortOf(mt.Key()))
			if _, ok := e.compInit[vn]; !ok {
				e.comp(st, vn, e.compSort[vn])
			}
			e.setComp(st, vn, e.compSort[vn], fmt.Sprintf("((as const (Array %s Bool)) false)", e.reg.sortOf(mt.Key())))
			// ghost: number of completed iterations, and the length of the map when the iteration started
			in := e.itersName(f, x)
			e.compSort[in] = "Int"
			if _, ok := e.compInit[in]; !ok {
				e.comp(st, in, "Int")
			}
			e.setComp(st, in, "Int", "0")
			ri.len0 = e.define(f.prefix+x.Name()+"_len0", "Int", e.mapLen(st, mt, xv.Term))
			f.rangeOf[x] = ri
		}
	case *ssa.Next:
		e.execNext(f, x, st, reach)
	case *ssa.Extract:
		t := e.val(f, x.Tuple)
		if x.Index >= len(t.Tup) {
			panic("extract from non-tuple")
		}
		f.vals[x] = t.Tup[x.Index]
	case *ssa.TypeAssert:
		f.vals[x] = e.typeAssert(f, x, reach)
	case *ssa.Select:
		e.note("select statement abstracted in " + f.fn.Name())
		f.vals[x] = e.havocVal(x.Type(), name(x))
	case *ssa.Send:
		e.note("channel send abstracted in " + f.fn.Name())
	default:
		panic(fmt.Sprintf("unhandled %T", ins))
	}
}

func fieldName(x *ssa.FieldAddr) string {
	st := unalias(deref(x.X.Type())).Underlying().(*types.Struct)
	return st.Field(x.Field).Name()
}

func (e *Exec) itersName(f *Frame, r *ssa.Range) string {
	return fmt.Sprintf("ITERS_%s%s", f.prefix, r.Name())
}

func (e *Exec) visitedName(f *Frame, r *ssa.Range) string {
	return fmt.Sprintf("VISITED_%s%s", f.prefix, r.Name())
}

// boxFacts: ground instances of injection axioms for opaque boxes.
func (e *Exec) boxFacts(t types.Type, v Term) {
	t = unalias(t)
	if types.IsInterface(t) {
		return
	}
	s := e.reg.sortOf(t)
	switch s {
	case "Int", "String", "Bool", "Real", "Slice":
		return
	}
	m := mangleSort(s)
	e.assume(Eq(app("proj_"+m, app("inj_"+m, v)), v), "")
}

func (e *Exec) execUnOp(f *Frame, x *ssa.UnOp, st *State, reach Term) {
	name := f.prefix + x.Name()
	v := e.val(f, x.X)
	switch x.Op {
	case token.MUL: // load
		if g, ok := x.X.(*ssa.Global); ok {
			if c, ok := e.globalConst(g); ok {
				f.vals[x] = Val{T: x.Type(), Term: c}
				return
			}
		}
		a := e.addrOf(v)
		if len(a.Path) == 0 && a.Kind == addrHeap {
			e.safety("nilptr", Not(Eq(a.Ref, "0")), reach, "nil pointer dereference in load of "+x.X.Name())
		}
		if a.Null != "" {
			e.safety("nilptr", Not(a.Null), reach, "nil pointer dereference in load of "+x.X.Name())
		}
		lv := e.load(st, a)
		out := Val{T: x.Type(), Term: e.define(name, e.reg.sortOf(x.Type()), lv.Term)}
		// binders of slice range loops: index and element
		if ia, ok := x.X.(*ssa.IndexAddr); ok && f == e.rootFrame && f.ctr != nil {
			if bo, ok := ia.Index.(*ssa.BinOp); ok {
				if phi, ok := bo.X.(*ssa.Phi); ok && phi.Comment == "rangeindex" {
					if li := f.loops[phi.Block()]; li != nil {
						names := f.ctr.Binds[li.ordinal]
						if len(names) > 0 && names[0] != "_" {
							e.rootBinders[names[0]] = e.val(f, ia.Index)
						}
						if len(names) > 1 && names[1] != "_" {
							e.rootBinders[names[1]] = out
						}
					}
				}
			}
		}
		if c := e.closureLoad(a); c != nil {
			out.Clo = c
		}
		f.vals[x] = out
	case token.NOT:
		f.vals[x] = Val{T: x.Type(), Term: Not(v.Term)}
	case token.SUB:
		f.vals[x] = Val{T: x.Type(), Term: e.define(name, e.reg.sortOf(x.Type()), app("-", v.Term))}
	case token.ARROW:
		e.note("channel receive abstracted in " + f.fn.Name())
		f.vals[x] = e.havocVal(x.Type(), name)
	case token.XOR:
		f.vals[x] = e.havocVal(x.Type(), name)
	default:
		panic("unop " + x.Op.String())
	}
}

// closures stored into struct fields / cells are remembered statically (by address text) so that
// a later call through the loaded value can be resolved (e.g. CanAdoptFunc).
func (e *Exec) recordClosureStore(a *Addr, v Val) {
	if v.Clo == nil {
		return
	}
	if e.cloCells == nil {
		e.cloCells = map[string]*Closure{}
	}
	e.cloCells[fmt.Sprintf("%d|%s|%s|%v", a.Kind, a.Ref, a.Idx, a.Path)] = v.Clo
}
func (e *Exec) closureLoad(a *Addr) *Closure {
	return e.cloCells[fmt.Sprintf("%d|%s|%s|%v", a.Kind, a.Ref, a.Idx, a.Path)]
}

func (e *Exec) binop(f *Frame, x *ssa.BinOp, reach Term) Val {
	a := e.val(f, x.X)
	b := e.val(f, x.Y)
	name := f.prefix + x.Name()
	so := e.reg.sortOf(x.X.Type())
	if x.Op == token.EQL || x.Op == token.NEQ {
		// comparison of a nullable interior pointer with nil
		var nt Term
		if a.Addr != nil && a.Addr.Null != "" && b.Addr == nil && b.Term == "0" {
			nt = a.Addr.Null
		} else if b.Addr != nil && b.Addr.Null != "" && a.Addr == nil && a.Term == "0" {
			nt = b.Addr.Null
		}
		if nt != "" {
			if x.Op == token.NEQ {
				nt = Not(nt)
			}
			return Val{T: x.Type(), Term: e.define(name, "Bool", nt)}
		}
	}
	at, bt := e.asTerm(a), e.asTerm(b)
	var t Term
	switch x.Op {
	case token.EQL:
		t = Eq(at, bt)
	case token.NEQ:
		t = Not(Eq(at, bt))
	case token.LSS:
		if so == "String" {
			t = app("str.<", at, bt)
		} else {
			t = app("<", at, bt)
		}
	case token.LEQ:
		if so == "String" {
			t = app("str.<=", at, bt)
		} else {
			t = app("<=", at, bt)
		}
	case token.GTR:
		if so == "String" {
			t = app("str.<", bt, at)
		} else {
			t = app(">", at, bt)
		}
	case token.GEQ:
		if so == "String" {
			t = app("str.<=", bt, at)
		} else {
			t = app(">=", at, bt)
		}
	case token.ADD:
		if so == "String" {
			t = app("str.++", at, bt)
		} else {
			t = app("+", at, bt)
		}
	case token.SUB:
		t = app("-", at, bt)
	case token.MUL:
		t = app("*", at, bt)
	case token.QUO:
		if so == "Real" {
			t = app("/", at, bt)
		} else {
			e.safety("divzero", Not(Eq(bt, "0")), reach, "integer divide by zero")
			// Go truncates toward zero
			t = Ite(app(">=", at, "0"), app("div", at, bt), app("-", app("div", app("-", at), bt)))
		}
	case token.REM:
		e.safety("divzero", Not(Eq(bt, "0")), reach, "integer divide by zero")
		t = Ite(app(">=", at, "0"), app("mod", at, app("abs", bt)), app("-", app("mod", app("-", at), app("abs", bt))))
	case token.AND, token.OR, token.XOR, token.SHL, token.SHR, token.AND_NOT:
		if so == "Bool" {
			switch x.Op {
			case token.AND:
				t = And(at, bt)
			case token.OR:
				t = Or(at, bt)
			default:
				t = app("xor", at, bt)
			}
		} else {
			e.note("bit operation abstracted in " + f.fn.Name())
			return e.havocVal(x.Type(), name)
		}
	default:
		panic("binop " + x.Op.String())
	}
	return Val{T: x.Type(), Term: e.define(name, e.reg.sortOf(x.Type()), t)}
}

func (e *Exec) convert(f *Frame, x *ssa.Convert) Val {
	v := e.val(f, x.X)
	from, to := e.reg.sortOf(x.X.Type()), e.reg.sortOf(x.Type())
	name := f.prefix + x.Name()
	if from == to {
		return Val{T: x.Type(), Term: v.Term}
	}
	switch {
	case from == "Int" && to == "Real":
		return Val{T: x.Type(), Term: e.define(name, "Real", app("to_real", v.Term))}
	case from == "Real" && to == "Int":
		return Val{T: x.Type(), Term: e.define(name, "Int", Ite(app(">=", v.Term, "0.0"), app("to_int", v.Term), app("-", app("to_int", app("-", v.Term)))))}
	case from == "String" && to == "Slice":
		e.declFun("bytes_of_str", []string{"String"}, "Slice")
		return Val{T: x.Type(), Term: e.define(name, "Slice", app("bytes_of_str", v.Term))}
	case from == "Slice" && to == "String":
		e.declFun("str_of_bytes", []string{"Slice", "(Array Int Int)"}, "String")
		return Val{T: x.Type(), Term: e.fresh(name, "String")}
	case from == "Int" && to == "String":
		return Val{T: x.Type(), Term: e.define(name, "String", app("str.from_code", v.Term))}
	}
	panic("convert " + from + " -> " + to)
}

func (e *Exec) mapStore(st *State, mt *types.Map, m, k, v Term) {
	dn, ds, vn, vs := e.mapNames(mt)
	d := e.comp(st, dn, ds)
	vv := e.comp(st, vn, vs)
	ln, ls := e.mapLenName(mt)
	l := e.comp(st, ln, ls)
	had := Select(Select(d, m), k)
	e.setComp(st, ln, ls, Store(l, m, Ite(had, Select(l, m), app("+", Select(l, m), "1"))))
	e.setComp(st, dn, ds, Store(d, m, Store(Select(d, m), k, "true")))
	e.setComp(st, vn, vs, Store(vv, m, Store(Select(vv, m), k, v)))
}

func (e *Exec) mapDelete(st *State, mt *types.Map, m, k Term) {
	dn, ds, _, _ := e.mapNames(mt)
	d := e.comp(st, dn, ds)
	ln, ls := e.mapLenName(mt)
	l := e.comp(st, ln, ls)
	had := Select(Select(d, m), k)
	e.setComp(st, ln, ls, Store(l, m, Ite(had, app("-", Select(l, m), "1"), Select(l, m))))
	e.setComp(st, dn, ds, Store(d, m, Store(Select(d, m), k, "false")))
}

func (e *Exec) mapHas(st *State, mt *types.Map, m, k Term) Term {
	dn, ds, _, _ := e.mapNames(mt)
	return Select(Select(e.comp(st, dn, ds), m), k)
}

func (e *Exec) mapGet(st *State, mt *types.Map, m, k Term) Term {
	_, _, vn, vs := e.mapNames(mt)
	return Ite(e.mapHas(st, mt, m, k), Select(Select(e.comp(st, vn, vs), m), k), e.reg.zero(mt.Elem()))
}

func (e *Exec) mapLen(st *State, mt *types.Map, m Term) Term {
	ln, ls := e.mapLenName(mt)
	l := Select(e.comp(st, ln, ls), m)
	return l
}

func (e *Exec) lookup(f *Frame, x *ssa.Lookup, st *State, reach Term) Val {
	m := e.val(f, x.X)
	k := e.val(f, x.Index)
	name := f.prefix + x.Name()
	mt, isMap := unalias(m.T).Underlying().(*types.Map)
	if !isMap {
		// string index
		e.safety("index", And(app(">=", k.Term, "0"), app("<", k.Term, app("str.len", m.Term))), reach, "string index out of range")
		return Val{T: x.Type(), Term: e.define(name, "Int", app("str.to_code", app("str.at", m.Term, k.Term)))}
	}
	e.noteKeyTerm(k.Term, e.reg.sortOf(mt.Key()))
	has := e.define(name+"_ok", "Bool", e.mapHas(st, mt, m.Term, k.Term))
	v := Val{T: mt.Elem(), Term: e.define(name, e.reg.sortOf(mt.Elem()), e.mapGet(st, mt, m.Term, k.Term))}
	e.refBound(st, v)
	if x.CommaOk {
		return Val{T: x.Type(), Tup: []Val{v, {T: types.Typ[types.Bool], Term: has}}}
	}
	return v
}

func (e *Exec) execNext(f *Frame, x *ssa.Next, st *State, reach Term) {
	name := f.prefix + x.Name()
	rng, ok := x.Iter.(*ssa.Range)
	if !ok {
		panic("next on non-range")
	}
	ri := f.rangeOf[rng]
	tup := x.Type().(*types.Tuple)
	okv := Val{T: types.Typ[types.Bool], Term: e.fresh(name+"_ok", "Bool")}
	if !ri.isMap {
		// string iteration: abstract
		e.note("range over string abstracted in " + f.fn.Name())
		f.vals[x] = Val{T: x.Type(), Tup: []Val{okv, e.havocVal(tup.At(1).Type(), name+"_k"), e.havocVal(tup.At(2).Type(), name+"_v")}}
		return
	}
	mt := unalias(ri.x.T).Underlying().(*types.Map)
	k := Val{T: mt.Key(), Term: e.fresh(name+"_k", e.reg.sortOf(mt.Key()))}
	e.noteKeyTerm(k.Term, e.reg.sortOf(mt.Key()))
	vn := e.visitedName(f, rng)
	vis := e.comp(st, vn, e.compSort[vn])
	// only keys that were in the map when the iteration started have been visited
	if ri.dom0 != "" {
		ksq := e.reg.sortOf(mt.Key())
		e.assume(fmt.Sprintf("(forall ((kq %s)) (! (=> %s %s) :pattern (%s)))", ksq, Select(vis, "kq"), Select(ri.dom0, "kq"), Select(vis, "kq")), "range over map visits only keys of the map")
	}
	// ok => k in dom, not visited ; !ok => every key in dom was visited (instantiated lazily by contracts: exposed as a quantified fact)
	e.assume(Implies(okv.Term, And(e.mapHas(st, mt, ri.x.Term, k.Term), Not(Select(vis, k.Term)))), "")
	ks := e.reg.sortOf(mt.Key())
	e.assume(Implies(Not(okv.Term), fmt.Sprintf("(forall ((kq %s)) (! (=> %s %s) :pattern (%s)))", ks,
		e.mapHas(st, mt, ri.x.Term, "kq"), Select(vis, "kq"), Select(vis, "kq"))), "range over map visits every key")
	v := Val{T: mt.Elem(), Term: e.define(name+"_v", e.reg.sortOf(mt.Elem()), e.mapGet(st, mt, ri.x.Term, k.Term))}
	e.refBound(st, v)
	e.setComp(st, vn, e.compSort[vn], Ite(okv.Term, Store(vis, k.Term, "true"), vis))
	// iteration count: 0 <= iters <= len0 while running; on exhaustion of an unmodified map iters == len0
	in := e.itersName(f, rng)
	its := e.comp(st, in, "Int")
	if ri.len0 != "" && ri.dom0 != "" {
		dn, ds, _, _ := e.mapNames(mt)
		e.assume(app(">=", its, "0"), "")
		e.assume(Implies(okv.Term, app("<", its, ri.len0)), "an unvisited key remains: fewer than len iterations so far")
		e.assume(Implies(And(Not(okv.Term), Eq(Select(e.comp(st, dn, ds), ri.x.Term), ri.dom0)), Eq(its, ri.len0)), "range over an unmodified map runs len(map) times")
	}
	e.setComp(st, in, "Int", Ite(okv.Term, app("+", its, "1"), its))
	f.vals[x] = Val{T: x.Type(), Tup: []Val{okv, k, v}}
	// loop binders: remember key/value for contracts
	f.vals[rng] = Val{T: rng.Type(), Term: "0", Tup: []Val{k, v}}
	if f == e.rootFrame && f.ctr != nil {
		if li := f.loops[x.Block()]; li != nil {
			e.loopVisited[li.ordinal] = vn
			e.loopIters[li.ordinal] = in
			names := f.ctr.Binds[li.ordinal]
			if len(names) > 0 && names[0] != "_" {
				e.rootBinders[names[0]] = k
			}
			if len(names) > 1 && names[1] != "_" {
				e.rootBinders[names[1]] = v
			}
		}
	}
}

func (e *Exec) typeAssert(f *Frame, x *ssa.TypeAssert, reach Term) Val {
	v := e.val(f, x.X)
	name := f.prefix + x.Name()
	at := x.AssertedType
	var ok, val Term
	if types.IsInterface(at) {
		iface := unalias(at).Underlying().(*types.Interface)
		if iface.NumMethods() == 0 {
			ok = Not(Eq(v.Term, "nil_any"))
		} else if types.IsInterface(x.X.Type()) && types.Implements(x.X.Type(), iface) {
			ok = Not(Eq(v.Term, "nil_any"))
		} else {
			p := "impl_" + shortTypeName(at)
			e.declFun(p, []string{"Any"}, "Bool")
			ok = And(Not(Eq(v.Term, "nil_any")), app(p, v.Term))
		}
		val = Ite(ok, v.Term, "nil_any")
	} else {
		ok, val = e.reg.unbox(at, v.Term)
		val = Ite(ok, val, e.reg.zero(at))
	}
	okd := e.define(name+"_ok", "Bool", ok)
	vald := Val{T: at, Term: e.define(name, e.reg.sortOf(at), val)}
	if x.CommaOk {
		return Val{T: x.Type(), Tup: []Val{vald, {T: types.Typ[types.Bool], Term: okd}}}
	}
	e.safety("typeassert", okd, reach, "type assertion to "+at.String()+" may fail")
	return vald
}

func (e *Exec) sliceOp(f *Frame, x *ssa.Slice, st *State, reach Term) Val {
	base := e.val(f, x.X)
	name := f.prefix + x.Name()
	var lo, hi Term = "0", ""
	if x.Low != nil {
		lo = e.val(f, x.Low).Term
	}
	if x.High != nil {
		hi = e.val(f, x.High).Term
	}
	switch bt := unalias(base.T).Underlying().(type) {
	case *types.Slice:
		if hi == "" {
			hi = app("s_len", base.Term)
		}
		cp := app("s_cap", base.Term)
		if x.Max != nil {
			cp = e.val(f, x.Max).Term
		}
		e.safety("slice", And(app("<=", "0", lo), app("<=", lo, hi), app("<=", hi, app("s_cap", base.Term))), reach, "slice bounds out of range")
		return Val{T: x.Type(), Term: e.define(name, "Slice", app("mk_slice", app("s_base", base.Term), app("+", app("s_off", base.Term), lo), app("-", hi, lo), app("-", cp, lo)))}
	case *types.Pointer:
		arr := unalias(bt.Elem()).Underlying().(*types.Array)
		n := IntLit(arr.Len())
		if hi == "" {
			hi = n
		}
		e.safety("slice", And(app("<=", "0", lo), app("<=", lo, hi), app("<=", hi, n)), reach, "slice bounds out of range")
		a := e.addrOf(base)
		return Val{T: x.Type(), Term: e.define(name, "Slice", app("mk_slice", a.Ref, lo, app("-", hi, lo), app("-", n, lo)))}
	case *types.Basic:
		if hi == "" {
			hi = app("str.len", base.Term)
		}
		e.safety("slice", And(app("<=", "0", lo), app("<=", lo, hi), app("<=", hi, app("str.len", base.Term))), reach, "string slice bounds out of range")
		return Val{T: x.Type(), Term: e.define(name, "String", app("str.substr", base.Term, lo, app("-", hi, lo)))}
	}
	panic("slice of " + base.T.String())
}

// afterBlock: loop back edges (invariant preservation) and loop exits (noexit clauses).
func (e *Exec) afterBlock(f *Frame, b *ssa.BasicBlock, st *State, reach Term) {
	for _, s := range b.Succs {
		ec := f.edge[[2]int{b.Index, s.Index}]
		if li := f.loops[s]; li != nil && s.Dominates(b) {
			e.backEdge(f, li, b, st, ec)
			e.failStopAtEdge(f, li, ec, "next-iteration")
			e.recordFailAtBackEdge(f, li, b, ec)
		}
		for _, li := range e.loopsOf(f, b) {
			if !li.blocks[s] && b != li.header {
				if n := len(s.Instrs); n > 0 {
					if _, isRet := s.Instrs[n-1].(*ssa.Return); isRet && len(s.Succs) == 0 {
						continue // a return out of the loop: checked at the function's exit
					}
				}
				e.failStopAtEdge(f, li, ec, "break")
			}
		}
		e.loopExitCheck(f, b, s, ec, "exit")
	}
}

func (e *Exec) loopsOf(f *Frame, b *ssa.BasicBlock) []*loopInfo {
	var out []*loopInfo
	for _, li := range f.loops {
		if li.blocks[b] {
			out = append(out, li)
		}
	}
	return out
}

// loopExitCheck: for loops declared `noexit`, leaving the loop other than from its header is unreachable.
func (e *Exec) loopExitCheck(f *Frame, b *ssa.BasicBlock, succ *ssa.BasicBlock, cond Term, what string) {
	if f.ctr == nil || e.discovery > 0 {
		return
	}
	for _, li := range e.loopsOf(f, b) {
		props, ok := f.ctr.NoExit[li.ordinal]
		if !ok {
			continue
		}
		if succ != nil && (li.blocks[succ] || b == li.header) {
			continue
		}
		e.oblige("noexit", fmt.Sprintf("loop%d", li.ordinal), props, cond, "false",
			fmt.Sprintf("loop %d is left early (%s in block %d): one failing element must not stop the others", li.ordinal, what, b.Index),
			fmt.Sprintf("loop %d noexit", li.ordinal))
	}
}

func (e *Exec) backEdge(f *Frame, li *loopInfo, latch *ssa.BasicBlock, st *State, cond Term) {
	if e.discovery > 0 {
		return
	}
	saved := map[*ssa.Phi]Val{}
	for _, ins := range li.header.Instrs {
		phi, ok := ins.(*ssa.Phi)
		if !ok {
			break
		}
		saved[phi] = f.vals[phi]
	}
	newVals := map[*ssa.Phi]Val{}
	for phi := range saved {
		newVals[phi] = e.val(f, phi.Edges[predIndex(li.header, latch)])
	}
	for phi, v := range newVals {
		f.vals[phi] = v
	}
	e.loopInvariant(f, li, st, cond, "inv-preserved")
	for _, phi := range li.accum {
		e.oblige("inv-preserved", fmt.Sprintf("loop%d.accum.%s", li.ordinal, phi.Comment), e.rootProps(), cond, e.accumInvAt(f.vals[phi].Term, li.accumPre[phi]),
			"automatic accumulator invariant of "+phi.Comment, "accumulator slice backed by memory allocated in the loop")
	}
	for phi, v := range saved {
		f.vals[phi] = v
	}
}

// skolemizeGoal replaces positively occurring registered integer foralls (and negatively occurring
// exists) in a goal by instances at fresh constants, which also become index terms.
func (e *Exec) skolemizeGoal(goal Term) Term {
	if len(e.intQuants) == 0 || !strings.Contains(goal, "Q!") {
		return goal
	}
	byName := map[string]intQuant{}
	for _, iq := range e.intQuants {
		byName[iq.q] = iq
	}
	toks := tokenize(goal)
	pos := 0
	var walk func(polarity int) string
	walk = func(polarity int) string {
		if pos >= len(toks) {
			return ""
		}
		t := toks[pos]
		if t != "(" {
			pos++
			if iq, ok := byName[t]; ok && ((iq.forall && polarity > 0) || (!iq.forall && polarity < 0)) {
				sk := e.fresh("sk", iq.sort)
				saved := e.instGen
				e.instGen = iq.gen + 1
				inst := iq.inst(sk)
				e.instGen = saved
				e.noteTermGen(sk, 0, iq.sort)
				return inst
			}
			return t
		}
		pos++ // (
		head := toks[pos]
		var parts []string
		if head == "(" {
			// compound head, e.g. ((_ is X) a): copy verbatim
			depth := 0
			start := pos - 1
			for i := start; i < len(toks); i++ {
				if toks[i] == "(" {
					depth++
				} else if toks[i] == ")" {
					depth--
					if depth == 0 {
						pos = i + 1
						return joinToks(toks[start : i+1])
					}
				}
			}
			return ""
		}
		pos++
		parts = append(parts, head)
		idx := 0
		for pos < len(toks) && toks[pos] != ")" {
			p := 0
			switch head {
			case "and", "or":
				p = polarity
			case "=>":
				// all but the last argument are negative
				p = -polarity
				// determine whether this is the last argument: look ahead
				save := pos
				skipExpr(toks, &pos)
				if pos < len(toks) && toks[pos] == ")" {
					p = polarity
				}
				pos = save
			case "not":
				p = -polarity
			default:
				p = 0
			}
			parts = append(parts, walk(p))
			idx++
		}
		pos++ // )
		return "(" + strings.Join(parts, " ") + ")"
	}
	return walk(1)
}

func skipExpr(toks []string, pos *int) {
	if toks[*pos] != "(" {
		*pos++
		return
	}
	d := 0
	for *pos < len(toks) {
		if toks[*pos] == "(" {
			d++
		} else if toks[*pos] == ")" {
			d--
			if d == 0 {
				*pos++
				return
			}
		}
		*pos++
	}
}

func tokenize(s string) []string {
	var out []string
	i := 0
	for i < len(s) {
		c := s[i]
		switch {
		case c == ' ' || c == '\n' || c == '\t':
			i++
		case c == '(' || c == ')':
			out = append(out, string(c))
			i++
		case c == '"':
			j := i + 1
			for j < len(s) {
				if s[j] == '"' {
					if j+1 < len(s) && s[j+1] == '"' {
						j += 2
						continue
					}
					break
				}
				j++
			}
			out = append(out, s[i:j+1])
			i = j + 1
		default:
			j := i
			for j < len(s) && s[j] != ' ' && s[j] != '(' && s[j] != ')' && s[j] != '\n' {
				j++
			}
			out = append(out, s[i:j])
			i = j
		}
	}
	return out
}

func joinToks(toks []string) string {
	var b strings.Builder
	for i, t := range toks {
		if i > 0 && t != ")" && toks[i-1] != "(" {
			b.WriteByte(' ')
		}
		b.WriteString(t)
	}
	return b.String()
}

// isForkJoin: the spawned closure signals a sync.WaitGroup (wg.Done), i.e. the spawner waits for it.
func isForkJoin(g *ssa.Go) bool {
	fn := g.Common().StaticCallee()
	if fn == nil {
		return false
	}
	for _, b := range fn.Blocks {
		for _, ins := range b.Instrs {
			var cm *ssa.CallCommon
			switch c := ins.(type) {
			case *ssa.Call:
				cm = c.Common()
			case *ssa.Defer:
				cm = c.Common()
			}
			if cm != nil {
				if callee := cm.StaticCallee(); callee != nil && callee.String() == "(*sync.WaitGroup).Done" {
					return true
				}
			}
		}
	}
	return false
}

// goSite: a spawned goroutine is an effect site (`at` clauses can constrain it) but its body does not run here.
func (e *Exec) goSite(f *Frame, b *ssa.BasicBlock, g *ssa.Go, st *State, reach Term) {
	c := g.Common()
	cc := &callCtx{f: f, b: b, st: st, reach: reach, resT: types.NewTuple(), instr: g, common: c}
	if c.IsInvoke() {
		cc.args = append(cc.args, e.val(f, c.Value))
		cc.key = fmt.Sprintf("(%s).%s", types.TypeString(c.Value.Type(), nil), c.Method.Name())
	} else if fn := c.StaticCallee(); fn != nil {
		cc.key = fn.String()
	} else {
		cc.key = "go:" + c.Value.Name()
	}
	for _, a := range c.Args {
		cc.args = append(cc.args, e.val(f, a))
	}
	cc.names = calleeNames(cc.key)
	e.siteClauses(cc)
}
