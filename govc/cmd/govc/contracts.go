package main

// Contract files: comment-only Go files (`//go:build verif`) holding `//@` lines.

import (
	"fmt"
	"go/ast"
	"go/parser"
	"os"
	"path/filepath"
	"regexp"
	"sort"
	"strconv"
	"strings"
)

type Clause struct {
	Assumed bool // requires-assumed: not checked at call sites
	Props []string
	Text  string
	Expr  ast.Expr
	Label string
	Line  int
}

type RecordFailSpec struct {
	Props  []string
	Benign []string // error predicates (IsNotFound, IsConflict, IsAlreadyExists) whose errors may be swallowed
	Accum  string   // source name of the accumulator slice
}

type SnapSpec struct {
	Name string
	Expr ast.Expr
	Text string
}

type AtClause struct {
	Site    int // 0: every site of Callee; N: only its N-th call site
	Callee  string
	Binders []string
	Props   []string
	Text    string
	Expr    ast.Expr
	Line    int
}

type FuncContract struct {
	Pkg      string // import path of the package
	Name     string // "deleteChildren", "Manager.SyncObject", "AtomicUpdate$1"
	Params   []string
	Results  []string
	Requires []Clause
	Ensures  []Clause
	Tags     []Clause
	Ats      []AtClause
	NoExit   map[int][]string
	RecordFail map[string]*RecordFailSpec // callee -> a non-benign failure of a call of it must be recorded in an accumulator slice before the loop goes on
	FailStop map[string][]string // callee -> props: a non-nil error result of a call of it ends the function with a non-nil error at once
	Invs     map[int][]Clause
	Binds    map[int][]string
	BindCalls map[string][]string // callee name -> names for the results of its first call site
	KeepsCalls map[string][]SnapSpec // callee name -> maps/slices of the caller that a call of it is ASSUMED not to write (tree-shape assumptions)
	SnapCalls map[string][]SnapSpec // callee name -> expressions evaluated right after its call returns (a snapshot: later writes do not change it)
	Lets     []LetClause
	SafetyProps []string
	CloseChan   bool
	FrameProps []string
	Writes   *WritesClause
	OMWrites *OMWritesClause
	AllProps []string
	Track    []string
	PureCallbacks map[string]bool
	Callbacks map[string]*CallbackSpec
	Pure     bool // side-effect free: its result is a function of its arguments (usable in contracts)
	Trusted  bool // contract is assumed, body not verified (listed as an assumption)
	TrustedWhy string
	File     string
	Line     int
	Lemmas   bool
}

// Pred: a named specification predicate/function usable from every contract file.
type Pred struct {
	Pkg    string
	Name   string
	Params []string
	Expr   ast.Expr
	Text   string
}

var predRe = regexp.MustCompile(`^pred\s+([A-Za-z0-9_]+)\s*\(([^)]*)\)\s*=\s*(.*)$`)

// WritesClause: every heap write of the function goes to memory allocated during the call or to the
// footprint of one of the listed references.
type WritesClause struct {
	Props []string
	Text  string
	Assumed bool // the frame is an unchecked assumption (listed in the evidence), not proved for the body
	Exprs []ast.Expr
	Elems []bool // target is "every value stored in this map / slice"
	Texts []string
}

func splitTopLevel(s string) []string {
	var parts []string
	d, last := 0, 0
	inStr := false
	for i := 0; i < len(s); i++ {
		switch {
		case s[i] == '"':
			inStr = !inStr
		case inStr:
		case s[i] == '(' || s[i] == '{' || s[i] == '[':
			d++
		case s[i] == ')' || s[i] == '}' || s[i] == ']':
			d--
		case s[i] == ',' && d == 0:
			parts = append(parts, s[last:i])
			last = i + 1
		}
	}
	return append(parts, s[last:])
}

// OMWritesClause: of the abstract object-model observers (and the Object field) of objects that
// existed before the call, only the listed groups may change.
type OMWritesClause struct {
	Props  []string
	Groups []string
	Text   string
}

// CallbackSpec: what a function-valued parameter may write when it is called.
type CallbackSpec struct {
	WritesArg int      // -1: only fresh memory; k: additionally the footprint of its k-th argument
	Extra     []string // parameters of the enclosing function whose footprint the callback may also write
}

type LetClause struct {
	Name string
	Expr ast.Expr
	Text string
}

// package-level variables initialised once (in the package initialiser) to a non-nil value and never
// assigned again; the engine checks exactly that on the SSA program before assuming non-nilness.
var globalNonNil = map[string]bool{}

// package invariants over unexported package-level state: assumed on entry of every function of the
// package that is under contract, proved on exit, before calls into the package and across loops.
var globalInvs = map[string][]Clause{}

// entry invariants of volatile caches (zcache): every value stored satisfies the predicate over `v`
// (obligation at each Set), so every value read does (assumption at each Get).
type EntryInv struct {
	Pkg      string
	TypeExpr ast.Expr
	Clause   Clause
}

var entryInvs []*EntryInv

var propRe = regexp.MustCompile(`^\[([A-Z0-9, ]+)\]\s*`)

func parseProps(s string) ([]string, string) {
	m := propRe.FindStringSubmatch(s)
	if m == nil {
		return nil, s
	}
	var ps []string
	for _, p := range strings.Split(m[1], ",") {
		p = strings.TrimSpace(p)
		if p != "" {
			ps = append(ps, p)
		}
	}
	return ps, s[len(m[0]):]
}

func splitNames(s string) []string {
	var out []string
	for _, p := range strings.Split(s, ",") {
		p = strings.TrimSpace(p)
		if p != "" {
			out = append(out, p)
		}
	}
	return out
}

var funcHdrRe = regexp.MustCompile(`^func\s+([A-Za-z0-9_.$]+)\s*\(([^)]*)\)\s*(?:\(([^)]*)\))?\s*$`)
var atRe = regexp.MustCompile(`^at\s+([A-Za-z0-9_.$#]+)\s*\(([^)]*)\)\s*(\[[A-Z0-9, ]+\])?\s*:\s*(.*)$`)
var loopRe = regexp.MustCompile(`^(noexit|invariant|bind)\s+loop\s+(\d+)\s*(.*)$`)
var snapCallRe = regexp.MustCompile(`^snap\s+call\s+([A-Za-z0-9_.$]+)\s*:\s*([A-Za-z0-9_]+)\s*=\s*(.*)$`)
var keepsCallRe = regexp.MustCompile(`^keeps\s+call\s+([A-Za-z0-9_.$]+)\s*:\s*(.*)$`)
var bindCallRe = regexp.MustCompile(`^bind\s+call\s+([A-Za-z0-9_.$]+)\s*:\s*(.*)$`)

// sugar: A ==> B  (lowest precedence, right associative) becomes implies(A, B); A <==> B becomes iff(A,B)
func desugar(s string) string {
	s = strings.TrimSpace(s)
	for _, q := range []string{"forall", "exists"} {
		if strings.HasPrefix(s, q+" ") {
			if j := topLevelIndex(s, "::"); j >= 0 {
				decl := strings.TrimSpace(s[len(q):j])
				return q + "(func(" + decl + ") bool { return " + desugar(s[j+2:]) + " })"
			}
		}
	}
	if i := topLevelIndex(s, "<==>"); i >= 0 {
		return "iff(" + desugar(s[:i]) + ", " + desugar(s[i+4:]) + ")"
	}
	if i := topLevelIndex(s, "==>"); i >= 0 {
		return "implies(" + desugar(s[:i]) + ", " + desugar(s[i+3:]) + ")"
	}
	// forall k string :: body
	for _, q := range []string{"forall", "exists"} {
		if strings.HasPrefix(s, q+" ") {
			if j := topLevelIndex(s, "::"); j >= 0 {
				decl := strings.TrimSpace(s[len(q):j])
				return q + "(func(" + decl + ") bool { return " + desugar(s[j+2:]) + " })"
			}
		}
	}
	// recurse into parenthesised groups containing sugar
	if strings.Contains(s, "==>") || strings.Contains(s, "::") {
		var b strings.Builder
		i := 0
		for i < len(s) {
			if s[i] == '(' {
				j := matchParen(s, i)
				if j > i {
					inner := s[i+1 : j]
					if strings.Contains(inner, "==>") || strings.Contains(inner, "::") {
						b.WriteString("(" + desugarArgs(inner) + ")")
					} else {
						b.WriteString(s[i : j+1])
					}
					i = j + 1
					continue
				}
			}
			b.WriteByte(s[i])
			i++
		}
		return b.String()
	}
	return s
}

func desugarArgs(s string) string {
	// split on top-level commas
	var parts []string
	d, last := 0, 0
	inStr := false
	for i := 0; i < len(s); i++ {
		switch {
		case s[i] == '"':
			inStr = !inStr
		case inStr:
		case s[i] == '(' || s[i] == '{' || s[i] == '[':
			d++
		case s[i] == ')' || s[i] == '}' || s[i] == ']':
			d--
		case s[i] == ',' && d == 0:
			parts = append(parts, s[last:i])
			last = i + 1
		}
	}
	parts = append(parts, s[last:])
	for i := range parts {
		parts[i] = desugar(parts[i])
	}
	return strings.Join(parts, ", ")
}

func matchParen(s string, i int) int {
	d := 0
	inStr := false
	for j := i; j < len(s); j++ {
		switch {
		case s[j] == '"':
			inStr = !inStr
		case inStr:
		case s[j] == '(':
			d++
		case s[j] == ')':
			d--
			if d == 0 {
				return j
			}
		}
	}
	return -1
}

func topLevelIndex(s, op string) int {
	d := 0
	inStr := false
	for i := 0; i+len(op) <= len(s); i++ {
		c := s[i]
		switch {
		case c == '"':
			inStr = !inStr
		case inStr:
		case c == '(' || c == '{' || c == '[':
			d++
		case c == ')' || c == '}' || c == ']':
			d--
		default:
			if d == 0 && strings.HasPrefix(s[i:], op) {
				if op == "==>" && i > 0 && s[i-1] == '<' {
					continue
				}
				return i
			}
		}
	}
	return -1
}

func parseExprText(s string) (ast.Expr, error) {
	return parser.ParseExpr(desugar(s))
}

// parseContractFile reads one zz_contracts_verif.go file.
func parseContractFile(path, pkgPath string, preds map[string]*Pred) ([]*FuncContract, error) {
	data, err := os.ReadFile(path)
	if err != nil {
		return nil, err
	}
	var out []*FuncContract
	var cur *FuncContract
	// join continuation lines ("//@ |")
	type ln struct {
		text string
		no   int
	}
	var lines []ln
	for i, raw := range strings.Split(string(data), "\n") {
		t := strings.TrimSpace(raw)
		if !strings.HasPrefix(t, "//@") {
			continue
		}
		t = strings.TrimSpace(strings.TrimPrefix(t, "//@"))
		if t == "" || strings.HasPrefix(t, "//") || strings.HasPrefix(t, "#") {
			continue
		}
		if strings.HasPrefix(t, "|") && len(lines) > 0 {
			lines[len(lines)-1].text += " " + strings.TrimSpace(t[1:])
			continue
		}
		lines = append(lines, ln{t, i + 1})
	}
	fail := func(l ln, msg string, a ...any) error {
		return fmt.Errorf("%s:%d: %s (in %q)", path, l.no, fmt.Sprintf(msg, a...), l.text)
	}
	for _, l := range lines {
		t := l.text
		if strings.HasPrefix(t, "global-nonnil ") {
			for _, g := range strings.Fields(strings.ReplaceAll(t[len("global-nonnil "):], ",", " ")) {
				globalNonNil[pkgPath+"."+g] = true
			}
			continue
		}
		if strings.HasPrefix(t, "entry-invariant ") {
			rest := strings.TrimSpace(t[len("entry-invariant "):])
			props, rest := parseProps(rest)
			i := strings.Index(rest, ":")
			if i < 0 {
				return nil, fail(l, "entry-invariant needs ':'")
			}
			tx, err := parser.ParseExpr(strings.TrimSpace(rest[:i]))
			if err != nil {
				return nil, fail(l, "parse type: %v", err)
			}
			ex, err := parseExprText(rest[i+1:])
			if err != nil {
				return nil, fail(l, "parse: %v", err)
			}
			entryInvs = append(entryInvs, &EntryInv{Pkg: pkgPath, TypeExpr: tx, Clause: Clause{Props: props, Text: strings.TrimSpace(rest[i+1:]), Expr: ex, Line: l.no}})
			continue
		}
		if strings.HasPrefix(t, "global-invariant ") {
			props, body := parseProps(strings.TrimSpace(t[len("global-invariant "):]))
			ex, err := parseExprText(body)
			if err != nil {
				return nil, fail(l, "parse: %v", err)
			}
			globalInvs[pkgPath] = append(globalInvs[pkgPath], Clause{Props: props, Text: body, Expr: ex, Line: l.no})
			continue
		}
		if m := predRe.FindStringSubmatch(t); m != nil {
			ex, err := parseExprText(m[3])
			if err != nil {
				return nil, fail(l, "parse: %v", err)
			}
			preds[m[1]] = &Pred{Pkg: pkgPath, Name: m[1], Params: splitNames(m[2]), Expr: ex, Text: m[3]}
			continue
		}
		if m := funcHdrRe.FindStringSubmatch(t); m != nil {
			cur = &FuncContract{Pkg: pkgPath, Name: m[1], Params: splitNames(m[2]), Results: splitNames(m[3]),
				NoExit: map[int][]string{}, Invs: map[int][]Clause{}, Binds: map[int][]string{}, PureCallbacks: map[string]bool{}, File: path, Line: l.no}
			out = append(out, cur)
			continue
		}
		if cur == nil {
			return nil, fail(l, "clause before any func header")
		}
		word := t
		rest := ""
		if i := strings.IndexAny(t, " \t"); i >= 0 {
			word, rest = t[:i], strings.TrimSpace(t[i+1:])
		}
		switch word {
		case "requires", "requires-assumed", "ensures", "ensures-assumed", "tags":
			props, body := parseProps(rest)
			ex, err := parseExprText(body)
			if err != nil {
				return nil, fail(l, "parse: %v", err)
			}
			c := Clause{Props: props, Text: body, Expr: ex, Line: l.no}
			switch word {
			case "requires":
				cur.Requires = append(cur.Requires, c)
			case "requires-assumed":
				// a data-structure invariant the body relies on: assumed on entry, NOT checked at call sites, reported as an assumption
				c.Assumed = true
				cur.Requires = append(cur.Requires, c)
			case "ensures":
				cur.Ensures = append(cur.Ensures, c)
			case "ensures-assumed":
				c.Assumed = true
				cur.Ensures = append(cur.Ensures, c)
			default:
				// ghost labelling of results with fresh uninterpreted relations: assumed at call sites, nothing to prove
				cur.Tags = append(cur.Tags, c)
			}
		case "safety":
			for _, w := range strings.Fields(strings.ReplaceAll(rest, ",", " ")) {
				if w == "closechan" {
					// opt-in: close(ch) must be proved to act on a non-nil channel that is still open
					cur.CloseChan = true
					continue
				}
				cur.SafetyProps = append(cur.SafetyProps, w)
			}
		case "writes", "writes-assumed":
			props, body := parseProps(rest)
			wc := &WritesClause{Props: props, Text: body, Assumed: word == "writes-assumed"}
			if strings.TrimSpace(body) != "fresh" && strings.TrimSpace(body) != "nothing" {
				for _, part := range splitTopLevel(body) {
					part = strings.TrimSpace(part)
					if part == "fresh" || part == "" {
						continue
					}
					isElems := false
					if strings.HasPrefix(part, "elems(") && strings.HasSuffix(part, ")") {
						isElems = true
						part = part[len("elems(") : len(part)-1]
					}
					ex, err := parseExprText(part)
					if err != nil {
						return nil, fail(l, "parse: %v", err)
					}
					wc.Exprs = append(wc.Exprs, ex)
					wc.Elems = append(wc.Elems, isElems)
					if isElems {
						part = "elems(" + part + ")"
					}
					wc.Texts = append(wc.Texts, part)
				}
			}
			cur.Writes = wc
		case "om-writes":
			props, body := parseProps(rest)
			cur.OMWrites = &OMWritesClause{Props: props, Groups: strings.Fields(strings.ReplaceAll(body, ",", " ")), Text: body}
		case "frame":
			cur.FrameProps = append(cur.FrameProps, strings.Fields(strings.ReplaceAll(rest, ",", " "))...)
		case "track":
			cur.Track = append(cur.Track, splitNames(rest)...)
		case "callback":
			// callback <name>: writes fresh | writes arg <k>
			i := strings.Index(rest, ":")
			if i < 0 {
				return nil, fail(l, "callback needs ':'")
			}
			name := strings.TrimSpace(rest[:i])
			spec := strings.Fields(strings.ReplaceAll(rest[i+1:], ",", " "))
			cb := &CallbackSpec{WritesArg: -1}
			if len(spec) < 2 || spec[0] != "writes" {
				return nil, fail(l, "callback: expected 'writes fresh|arg <k>|<param> ...'")
			}
			for j := 1; j < len(spec); j++ {
				switch {
				case spec[j] == "fresh":
				case spec[j] == "arg" && j+1 < len(spec):
					k, err := strconv.Atoi(spec[j+1])
					if err != nil {
						return nil, fail(l, "callback: bad argument index")
					}
					cb.WritesArg = k
					j++
				default:
					cb.Extra = append(cb.Extra, spec[j])
				}
			}
			if cur.Callbacks == nil {
				cur.Callbacks = map[string]*CallbackSpec{}
			}
			cur.Callbacks[name] = cb
		case "pure-callback":
			for _, n := range splitNames(rest) {
				cur.PureCallbacks[n] = true
			}
		case "pure":
			cur.Pure = true
		case "trusted":
			cur.Trusted = true
			cur.TrustedWhy = rest
		case "let":
			i := strings.Index(rest, "=")
			if i < 0 {
				return nil, fail(l, "let needs =")
			}
			ex, err := parseExprText(rest[i+1:])
			if err != nil {
				return nil, fail(l, "parse: %v", err)
			}
			cur.Lets = append(cur.Lets, LetClause{Name: strings.TrimSpace(rest[:i]), Expr: ex, Text: rest[i+1:]})
		case "at", "never":
			if word == "never" {
				props, body := parseProps(rest)
				cur.Ats = append(cur.Ats, AtClause{Callee: strings.TrimSpace(body), Props: props, Text: "never " + body, Expr: ast.NewIdent("false"), Line: l.no})
				break
			}
			m := atRe.FindStringSubmatch(t)
			if m == nil {
				return nil, fail(l, "malformed at clause")
			}
			props, _ := parseProps(m[3])
			ex, err := parseExprText(m[4])
			if err != nil {
				return nil, fail(l, "parse: %v", err)
			}
			callee, siteSel := m[1], 0
			if i := strings.LastIndex(callee, "#"); i >= 0 {
				// Callee#N: the clause applies to the N-th call site of Callee only (in control-flow order)
				siteSel, err = strconv.Atoi(callee[i+1:])
				if err != nil {
					return nil, fail(l, "at: bad site selector")
				}
				callee = callee[:i]
			}
			cur.Ats = append(cur.Ats, AtClause{Callee: callee, Site: siteSel, Binders: splitNames(m[2]), Props: props, Text: m[4], Expr: ex, Line: l.no})
		case "recordfail":
			// recordfail [props] Callee unless Pred, Pred : accumulator
			props, body := parseProps(rest)
			i := strings.LastIndex(body, ":")
			if i < 0 {
				return nil, fail(l, "recordfail needs ': accumulator'")
			}
			head, accum := strings.TrimSpace(body[:i]), strings.TrimSpace(body[i+1:])
			rf := &RecordFailSpec{Props: props, Accum: accum}
			callee := head
			if j := strings.Index(head, " unless "); j >= 0 {
				callee = strings.TrimSpace(head[:j])
				rf.Benign = splitNames(head[j+len(" unless "):])
			}
			if cur.RecordFail == nil {
				cur.RecordFail = map[string]*RecordFailSpec{}
			}
			cur.RecordFail[callee] = rf
		case "failstop":
			props, body := parseProps(rest)
			if cur.FailStop == nil {
				cur.FailStop = map[string][]string{}
			}
			for _, n := range splitNames(body) {
				cur.FailStop[n] = props
			}
		case "keeps":
			km := keepsCallRe.FindStringSubmatch(t)
			if km == nil {
				return nil, fail(l, "malformed keeps clause (keeps call Callee: expr, expr)")
			}
			if cur.KeepsCalls == nil {
				cur.KeepsCalls = map[string][]SnapSpec{}
			}
			for _, part := range splitTopLevel(km[2]) {
				part = strings.TrimSpace(part)
				if part == "" {
					continue
				}
				ex, err := parseExprText(part)
				if err != nil {
					return nil, fail(l, "parse: %v", err)
				}
				cur.KeepsCalls[km[1]] = append(cur.KeepsCalls[km[1]], SnapSpec{Name: part, Expr: ex, Text: part})
			}
		case "snap":
			sm := snapCallRe.FindStringSubmatch(t)
			if sm == nil {
				return nil, fail(l, "malformed snap clause (snap call Callee: name = expr)")
			}
			ex, err := parseExprText(sm[3])
			if err != nil {
				return nil, fail(l, "parse: %v", err)
			}
			if cur.SnapCalls == nil {
				cur.SnapCalls = map[string][]SnapSpec{}
			}
			cur.SnapCalls[sm[1]] = append(cur.SnapCalls[sm[1]], SnapSpec{Name: sm[2], Expr: ex, Text: sm[3]})
		case "noexit", "invariant", "bind":
			if bm := bindCallRe.FindStringSubmatch(t); bm != nil {
				if cur.BindCalls == nil {
					cur.BindCalls = map[string][]string{}
				}
				cur.BindCalls[bm[1]] = splitNames(bm[2])
				break
			}
			m := loopRe.FindStringSubmatch(t)
			if m == nil {
				return nil, fail(l, "malformed loop clause")
			}
			n, _ := strconv.Atoi(m[2])
			body := strings.TrimSpace(m[3])
			switch word {
			case "noexit":
				props, _ := parseProps(body)
				cur.NoExit[n] = props
			case "bind":
				cur.Binds[n] = splitNames(strings.TrimPrefix(body, ":"))
			case "invariant":
				props, b2 := parseProps(body)
				b2 = strings.TrimSpace(strings.TrimPrefix(strings.TrimSpace(b2), ":"))
				if props == nil {
					props, b2 = parseProps(b2)
				}
				ex, err := parseExprText(b2)
				if err != nil {
					return nil, fail(l, "parse: %v", err)
				}
				cur.Invs[n] = append(cur.Invs[n], Clause{Props: props, Text: b2, Expr: ex, Line: l.no})
			}
		default:
			return nil, fail(l, "unknown clause keyword %q", word)
		}
	}
	for _, c := range out {
		set := map[string]bool{}
		add := func(ps []string) {
			for _, p := range ps {
				set[p] = true
			}
		}
		for _, cl := range c.Requires {
			add(cl.Props)
		}
		for _, cl := range c.Ensures {
			add(cl.Props)
		}
		for _, a := range c.Ats {
			add(a.Props)
		}
		for _, ps := range c.NoExit {
			add(ps)
		}
		for _, ps := range c.FailStop {
			add(ps)
		}
		for _, rf := range c.RecordFail {
			add(rf.Props)
		}
		for _, cls := range c.Invs {
			for _, cl := range cls {
				add(cl.Props)
			}
		}
		add(c.SafetyProps)
		add(c.FrameProps)
		if c.Writes != nil {
			add(c.Writes.Props)
		}
		if c.OMWrites != nil {
			add(c.OMWrites.Props)
		}
		for p := range set {
			c.AllProps = append(c.AllProps, p)
		}
		sort.Strings(c.AllProps)
	}
	return out, nil
}

// findContractFiles lists contract files under the repo with their package directory.
func findContractFiles(repo string) ([]string, error) {
	var files []string
	err := filepath.Walk(filepath.Join(repo, "pkg"), func(p string, info os.FileInfo, err error) error {
		if err != nil {
			return err
		}
		if !info.IsDir() && info.Name() == "zz_contracts_verif.go" {
			files = append(files, p)
		}
		return nil
	})
	sort.Strings(files)
	return files, err
}

// identsIn lists the arguments of called(X)/count(X) pseudo-calls in all clauses (ghost call flags).
func (c *FuncContract) trackedNames() []string {
	set := map[string]bool{}
	for _, t := range c.Track {
		set[t] = true
	}
	visit := func(ex ast.Expr) {
		ast.Inspect(ex, func(n ast.Node) bool {
			call, ok := n.(*ast.CallExpr)
			if !ok {
				return true
			}
			if id, ok := call.Fun.(*ast.Ident); ok && (id.Name == "called" || id.Name == "count") && len(call.Args) == 1 {
				set[exprString(call.Args[0])] = true
			}
			return true
		})
	}
	for _, cl := range c.Requires {
		visit(cl.Expr)
	}
	for _, cl := range c.Ensures {
		visit(cl.Expr)
	}
	for _, a := range c.Ats {
		visit(a.Expr)
	}
	for _, cls := range c.Invs {
		for _, cl := range cls {
			visit(cl.Expr)
		}
	}
	for _, l := range c.Lets {
		visit(l.Expr)
	}
	return sortedKeys(set)
}

func exprString(e ast.Expr) string {
	switch x := e.(type) {
	case *ast.Ident:
		return x.Name
	case *ast.SelectorExpr:
		return exprString(x.X) + "." + x.Sel.Name
	case *ast.BasicLit:
		return strings.Trim(x.Value, `"`)
	}
	return fmt.Sprintf("%T", e)
}

// usesInternalNames: the expression mentions results of inner calls (bind call), loop binders or called()/count().
func (c *FuncContract) usesInternalNames(ex ast.Expr) bool {
	internal := map[string]bool{}
	for _, ns := range c.BindCalls {
		for _, n := range ns {
			internal[n] = true
		}
	}
	for _, ns := range c.Binds {
		for _, n := range ns {
			internal[n] = true
		}
	}
	for _, ss := range c.SnapCalls {
		for _, sp := range ss {
			internal[sp.Name] = true
		}
	}
	found := false
	ast.Inspect(ex, func(n ast.Node) bool {
		switch x := n.(type) {
		case *ast.Ident:
			if internal[x.Name] {
				found = true
			}
		case *ast.CallExpr:
			if id, ok := x.Fun.(*ast.Ident); ok && (id.Name == "called" || id.Name == "count") {
				found = true
			}
		}
		return !found
	})
	return found
}
