package main

import (
	"sync"
	"crypto/md5"
	"os"
	"fmt"
	"go/ast"
	"go/types"
	"sort"
	"strings"
	"time"

	"golang.org/x/tools/go/ssa"
)

type OblResult struct {
	O       *Obligation
	Script  string
	Res     SolverResult
	Status  string // "discharged", "failed", "undecided", "cover-ok", "cover-failed"
}

type FuncReport struct {
	Ctr        *FuncContract
	Fn         *ssa.Function
	Obls       []*Obligation
	Exec       *Exec
	Err        error
	GenSeconds float64
	NInstr     int
}

func hasProp(ps []string, p string) bool {
	if p == "ALL" {
		return true
	}
	for _, x := range ps {
		if x == p {
			return true
		}
	}
	return false
}

// genFunc runs the symbolic executor on one function under contract and returns its obligations.
func (w *World) genFunc(ctr *FuncContract) (rep *FuncReport) {
	t0 := time.Now()
	rep = &FuncReport{Ctr: ctr}
	fn := w.fnOf[ctr]
	if fn == nil {
		rep.Err = fmt.Errorf("function %s.%s not found in the current tree", ctr.Pkg, ctr.Name)
		return rep
	}
	rep.Fn = fn
	if ctr.Trusted {
		return rep
	}
	defer func() {
		if r := recover(); r != nil {
			rep.Err = fmt.Errorf("engine: %v", r)
		}
		rep.GenSeconds = time.Since(t0).Seconds()
	}()
	for _, b := range fn.Blocks {
		rep.NInstr += len(b.Instrs)
	}
	e := newExec(w)
	rep.Exec = e
	e.rootFn = fn
	e.rootCtr = ctr
	for _, n := range ctr.trackedNames() {
		e.trackCalled[n] = true
	}
	entry := &State{comps: map[string]Term{}}
	e.allocCtr(entry)
	// always present (irrelevant facts are sliced away): whether it exists must not depend on which callee
	// summaries were computed by this executor
	e.comp(entry, "CACHED", "(Array Int Bool)")
	for _, n := range sortedKeys(e.trackCalled) {
		e.comp(entry, "CALLED_"+cleanSym(n), "Bool")
		e.comp(entry, "COUNT_"+cleanSym(n), "Int")
		e.assume(Not(e.compInit["CALLED_"+cleanSym(n)]), "")
		e.assume(Eq(e.compInit["COUNT_"+cleanSym(n)], "0"), "")
	}
	// constants of once-initialised globals are declared up front (stable cell references)
	for _, key := range sortedKeys(globalNonNil) {
		i := strings.LastIndex(key, ".")
		for _, p := range w.prog.AllPackages() {
			if p.Pkg.Path() == key[:i] {
				if g, ok := p.Members[key[i+1:]].(*ssa.Global); ok {
					e.globalConst(g)
				}
			}
		}
	}
	var args []Val
	for _, p := range fn.Params {
		v := e.havocVal(p.Type(), "arg_"+p.Name())
		e.argFacts(entry, v)
		args = append(args, v)
	}
	var binds []Val
	for _, fv := range fn.FreeVars {
		v := e.havocVal(fv.Type(), "free_"+fv.Name())
		e.argFacts(entry, v)
		if isRefLike(fv.Type()) {
			e.assume(Not(Eq(v.Term, "0")), "captured variables live in allocated cells")
		}
		binds = append(binds, v)
	}
	e.rootArgs = args
	e.rootEntry = entry.clone()
	e.rootBinders = map[string]Val{}
	e.loopVisited = map[int]string{}
	e.loopIters = map[int]string{}
	e.pendingFail = nil
	e.failSeq = 0
	env := e.contractEnv(fn, ctr, args, nil, entry, entry)
	// free variables by their own names
	for i, fv := range fn.FreeVars {
		e.rootBinders[fv.Name()] = binds[i]
		env.vars[fv.Name()] = binds[i]
	}
	var reqs []Term
	for _, cl := range ctr.Requires {
		t, err := e.evalBool(env, cl.Expr)
		if err != nil {
			rep.Err = fmt.Errorf("%s:%d: requires %s: %v", ctr.File, cl.Line, cl.Text, err)
			return rep
		}
		e.assume(t, "precondition")
		if cl.Assumed {
			e.assumes["assumed-precondition of "+ctr.Name+": "+cl.Text] = true
		}
		reqs = append(reqs, t)
	}
	for _, gi := range e.allGlobalInvs(entry, entry) {
		e.assume(gi.term, "package invariant on entry")
	}
	if ctr.Writes != nil {
		ts, err := e.evalWriteTargets(env, ctr.Writes)
		if err != nil {
			rep.Err = fmt.Errorf("%s: %v", ctr.Name, err)
			return rep
		}
		e.rootWrites = ts
	}
	if len(ctr.Requires) > 0 {
		e.cover("requires", ctr.AllProps, "true", "preconditions are satisfiable")
	}
	e.rootEntry = entry.clone()
	loops, _, _ := analyzeLoops(fn)
	// a loop clause keyed to an ordinal the function does not have (any more) must not be dropped silently
	maxOrd := 0
	for _, li := range loops {
		if li.ordinal > maxOrd {
			maxOrd = li.ordinal
		}
	}
	for n := range ctr.Invs {
		if n > maxOrd {
			rep.Err = fmt.Errorf("%s:%d: contract of %s: invariant for loop %d, but the function has %d loop(s)", ctr.File, ctr.Line, ctr.Name, n, maxOrd)
			return rep
		}
	}
	for n := range ctr.NoExit {
		if n > maxOrd {
			rep.Err = fmt.Errorf("%s:%d: contract of %s: noexit for loop %d, but the function has %d loop(s)", ctr.File, ctr.Line, ctr.Name, n, maxOrd)
			return rep
		}
	}
	f, rr := e.runBodyRoot(fn, args, binds, entry, ctr)
	// postconditions
	if rr.reach != "false" {
		env2 := e.contractEnv(fn, ctr, args, rr.rets, e.rootEntry, rr.state)
		env2.frame = f
		for k, v := range e.rootBinders {
			if _, ok := env2.vars[k]; !ok {
				env2.vars[k] = v
			}
		}
		if len(e.pendingFail) > 0 && len(rr.rets) > 0 {
			lastRet := rr.rets[len(rr.rets)-1]
			if e.reg.sortOf(lastRet.T) == "Any" {
				e.curPos = fn.Pos()
				e.failStopAtExit(rr.reach, lastRet.Term)
			}
		}
		for i, cl := range ctr.Ensures {
			if cl.Assumed {
				// ensures-assumed: callers may rely on it, the body is not checked against it (reported as an assumption)
				e.assumes["assumed postcondition (not proved) of "+ctr.Pkg+"."+ctr.Name+": "+cl.Text] = true
				continue
			}
			t, err := e.evalBool(env2, cl.Expr)
			if err != nil {
				rep.Err = fmt.Errorf("%s:%d: ensures %s: %v", ctr.File, cl.Line, cl.Text, err)
				return rep
			}
			e.curPos = fn.Pos()
			e.oblige("post", fmt.Sprintf("ensures%d", i+1), cl.Props, rr.reach, t, "postcondition: "+cl.Text, "ensures "+cl.Text)
		}
		for i, gi := range e.allGlobalInvs(e.rootEntry, rr.state) {
			e.curPos = fn.Pos()
			e.oblige("ginv", fmt.Sprintf("exit%d", i+1), gi.cl.Props, rr.reach, gi.term, "package invariant re-established on exit: "+gi.cl.Text, "global-invariant "+gi.cl.Text)
		}
		if ctr.OMWrites != nil {
			allowed := map[string]bool{}
			for _, g := range ctr.OMWrites.Groups {
				for _, c := range omGroups[g] {
					allowed[c] = true
				}
			}
			for _, c := range append([]string{}, e.compOrder...) {
				isObj := strings.HasPrefix(c, "OM_") || (strings.HasPrefix(c, "H_") && strings.HasSuffix(c, "unstructured_Unstructured"))
				if !isObj || allowed[c] || (strings.HasPrefix(c, "H_") && allowed["content"]) {
					continue
				}
				old := e.comp(e.rootEntry, c, e.compSort[c])
				cur := e.comp(rr.state, c, e.compSort[c])
				if old == cur {
					continue
				}
				e.curPos = fn.Pos()
				sk := e.fresh("skobj", "Int")
				e.oblige("frame", "om."+strings.TrimPrefix(c, "OM_"), ctr.OMWrites.Props, And(rr.reach, app("<=", sk, e.compInit[allocComp])), Eq(Select(cur, sk), Select(old, sk)),
					"object field group "+c+" of a pre-existing object changed; only "+ctr.OMWrites.Text+" may change", "om-writes "+ctr.OMWrites.Text)
			}
		}
		if len(ctr.Ensures) > 0 {
			e.cover("return", ctr.AllProps, rr.reach, "the function can return")
		}
	} else if len(ctr.Ensures) > 0 {
		rep.Err = fmt.Errorf("function %s never returns in the model", ctr.Name)
	}
	rep.Obls = e.obls
	return rep
}

func (c *FuncContract) usesCached() bool {
	for _, cl := range c.Requires {
		if strings.Contains(cl.Text, "cached(") {
			return true
		}
	}
	for _, cl := range c.Ensures {
		if strings.Contains(cl.Text, "cached(") {
			return true
		}
	}
	for _, a := range c.Ats {
		if strings.Contains(a.Text, "cached(") {
			return true
		}
	}
	return false
}

// argFacts: well-formedness of incoming values (allocated references, well-formed slices).
func (e *Exec) argFacts(st *State, v Val) {
	if len(v.Tup) > 0 {
		return
	}
	e.refTyped(v)
	a := e.allocCtr(st)
	switch unalias(v.T).Underlying().(type) {
	case *types.Pointer, *types.Map, *types.Chan:
		e.assume(And(app(">=", v.Term, "0"), app("<=", v.Term, a)), "")
	case *types.Slice:
		e.assume(And(app(">=", app("s_base", v.Term), "0"), app("<=", app("s_base", v.Term), a), app(">=", app("s_len", v.Term), "0"),
			app(">=", app("s_off", v.Term), "0"), app(">=", app("s_cap", v.Term), app("s_len", v.Term))), "")
	case *types.Interface:
		e.assume(Implies(app("(_ is box_ref)", v.Term), And(app(">=", app("ref", v.Term), "0"), app("<=", app("ref", v.Term), a))), "")
	}
}

func (e *Exec) runBodyRoot(fn *ssa.Function, args, binds []Val, entry *State, ctr *FuncContract) (*Frame, runResult) {
	e.inlineStack = []*ssa.Function{fn}
	loops, rpo, err := analyzeLoops(fn)
	f := &Frame{fn: fn, vals: map[ssa.Value]Val{}, reach: map[*ssa.BasicBlock]Term{}, exit: map[*ssa.BasicBlock]*State{},
		edge: map[[2]int]Term{}, loops: loops, ctr: ctr, entry: entry, depth: 0, rangeOf: map[ssa.Value]rangeInfo{},
		binders: map[string]Val{}, done: map[*ssa.BasicBlock]bool{}, rpo: rpo, args: args}
	f.prefix = "r_"
	e.rootFrame = f
	if err != nil {
		panic("fatal: " + err.Error())
	}
	for i, p := range fn.Params {
		f.vals[p] = args[i]
	}
	for i, fv := range fn.FreeVars {
		f.vals[fv] = binds[i]
	}
	e.runBlocks(f, rpo, fn.Blocks[0], entry, "true")
	return f, e.mergeReturns(f, fn)
}

// loopInvariant: obligations for the invariant clauses of loop li (root frame only).
func (e *Exec) loopInvariant(f *Frame, li *loopInfo, st *State, pc Term, kind string) {
	if f.ctr == nil || e.discovery > 0 {
		return
	}
	for i, gi := range e.allGlobalInvs(e.rootEntry, st) {
		e.oblige(kind, fmt.Sprintf("loop%d.g%d", li.ordinal, i+1), gi.cl.Props, pc, gi.term, fmt.Sprintf("%s of loop %d (package invariant): %s", kind, li.ordinal, gi.cl.Text), "global-invariant "+gi.cl.Text)
	}
	cls := f.ctr.Invs[li.ordinal]
	if len(cls) == 0 {
		return
	}
	env := e.rootEnv(f, st)
	env.frame = f
	env.loopHdr = li.header
	for i, cl := range cls {
		t, err := e.evalBool(env, cl.Expr)
		if err != nil {
			panic(fmt.Sprintf("fatal: %s:%d: invariant loop %d: %v", f.ctr.File, cl.Line, li.ordinal, err))
		}
		e.oblige(kind, fmt.Sprintf("loop%d.%d", li.ordinal, i+1), cl.Props, pc, t, fmt.Sprintf("%s of loop %d: %s", kind, li.ordinal, cl.Text), "invariant "+cl.Text)
	}
}

func (e *Exec) loopInvariantAssume(f *Frame, li *loopInfo, st *State) {
	reach := li.reach
	if reach == "" {
		reach = "true"
	}
	if f.ctr == nil {
		return
	}
	for _, gi := range e.allGlobalInvs(e.rootEntry, st) {
		e.assume(Implies(reach, gi.term), "package invariant (loop)")
	}
	cls := f.ctr.Invs[li.ordinal]
	if len(cls) == 0 {
		return
	}
	env := e.rootEnv(f, st)
	env.frame = f
	env.loopHdr = li.header
	for _, cl := range cls {
		t, err := e.evalBool(env, cl.Expr)
		if err != nil {
			panic(fmt.Sprintf("fatal: %s:%d: invariant loop %d: %v", f.ctr.File, cl.Line, li.ordinal, err))
		}
		e.assume(Implies(reach, t), "loop invariant")
	}
}

// ---------------------------------------------------------------------------------------------
// Script generation with cone-of-influence pruning

// script builds the SMT-LIB text of an obligation. focused=true selects only assumptions that are
// directly relevant to the goal's cone (hub symbols such as allocation counters do not pull anything in;
// keyed assumptions only when their key symbol is needed) — sound for proving, not for refuting.
func (e *Exec) script(o *Obligation, withModel bool, focused bool) string {
	items := e.items[:o.ItemsLen]
	e.symMu.Lock()
	for i := range items {
		if items[i].syms == nil {
			items[i].syms = symbolsOf(items[i].Text)
			if items[i].syms == nil {
				items[i].syms = []string{}
			}
		}
	}
	e.symMu.Unlock()
	defIdx := map[string]int{}
	for i, it := range items {
		if it.Kind != ItemAssume {
			defIdx[it.Sym] = i
		}
	}
	// for relevance, an assumption that mentions a named quantified formula Q!n counts as mentioning what Q is about
	relSyms := func(it *Item) []string {
		out := it.syms
		for _, s := range it.syms {
			if strings.HasPrefix(s, "Q!") {
				if di, ok := defIdx[s]; ok {
					out = append(append([]string{}, out...), items[di].syms...)
				}
			}
		}
		return out
	}
	hub := map[string]bool{}
	if focused {
		freq := map[string]int{}
		for _, it := range items {
			if it.Kind != ItemAssume || it.Key != "" {
				continue
			}
			seen := map[string]bool{}
			for _, s := range it.syms {
				if _, ok := defIdx[s]; ok && !seen[s] {
					seen[s] = true
					freq[s]++
				}
			}
		}
		for s, n := range freq {
			if n > 12 || strings.HasPrefix(s, "ALLOC") {
				hub[s] = true
			}
		}
	}
	needed := map[string]bool{}
	include := make([]bool, len(items))
	var work []string
	addSyms := func(syms []string) {
		for _, s := range syms {
			if !needed[s] {
				if _, ok := defIdx[s]; ok {
					needed[s] = true
					work = append(work, s)
				}
			}
		}
	}
	goal := app("and", o.PC, Not(o.Goal))
	if o.ExpectSat {
		goal = o.PC
	}
	addSyms(symbolsOf(goal))
	for {
		for len(work) > 0 {
			s := work[len(work)-1]
			work = work[:len(work)-1]
			i := defIdx[s]
			if !include[i] {
				include[i] = true
				addSyms(items[i].syms)
			}
		}
		changed := false
		for i, it := range items {
			if it.Kind != ItemAssume || include[i] {
				continue
			}
			hit := false
			if it.Key != "" {
				// a fact about one symbol (frame axiom, facts of a component version): relevant only with that symbol
				hit = needed[it.Key]
			} else if focused && allocOnly(it.syms) {
				// monotonicity chain of the allocation counter: cheap, always relevant once a counter is needed
				for _, s := range it.syms {
					if needed[s] {
						hit = true
					}
				}
			} else {
				for _, s := range relSyms(&items[i]) {
					if needed[s] && !hub[s] {
						hit = true
						break
					}
				}
			}
			if hit {
				include[i] = true
				addSyms(it.syms)
				changed = true
			}
		}
		if !changed && len(work) == 0 {
			break
		}
	}
	var b strings.Builder
	if withModel {
		b.WriteString("(set-option :produce-models true)\n")
	}
	b.WriteString("; obligation: " + o.Name + "\n; " + strings.ReplaceAll(o.Desc, "\n", " ") + "\n")
	used := map[string]bool{}
	for _, sy := range symbolsOf(goal) {
		used[sy] = true
	}
	for i := range items {
		if include[i] {
			for _, sy := range items[i].syms {
				used[sy] = true
			}
		}
	}
	b.WriteString(e.reg.datatypeDeclsFor(used))
	// initial versions of heap components first, by name: when an executor first met a component (while
	// computing a callee summary or only on using a memoised one) must not change the script
	var inits []string
	hoisted := make([]bool, len(items))
	hoistedDecl := make([]bool, len(items))
	for i, it := range items {
		if include[i] && it.Kind == ItemDecl && (strings.HasPrefix(it.Text, "(declare-const ") || strings.HasPrefix(it.Text, "(declare-fun ")) && !strings.Contains(it.Text, "\n") {
			inits = append(inits, it.Text)
			hoisted[i] = true
			hoistedDecl[i] = true
		}
	}
	sort.Strings(inits)
	for _, t := range inits {
		b.WriteString(t)
		b.WriteByte('\n')
	}
	// ... and the facts about those initial versions (they mention only initial versions, globals and rtype)
	var initFacts []string
	initDecl := map[string]string{}
	for i, it := range items {
		if !include[i] || !it.Init {
			continue
		}
		hoisted[i] = true
		if it.Kind == ItemAssume {
			initFacts = append(initFacts, it.Text)
		} else if !hoistedDecl[i] {
			initDecl[it.Text] = it.Text
		}
	}
	for _, t := range sortedKeys(initDecl) {
		b.WriteString(t)
		b.WriteByte('\n')
	}
	sort.Strings(initFacts)
	for _, t := range initFacts {
		b.WriteString(t)
		b.WriteByte('\n')
	}
	for i, it := range items {
		if include[i] && !hoisted[i] {
			b.WriteString(it.Text)
			b.WriteByte('\n')
		}
	}
	b.WriteString("(assert " + goal + ")\n(check-sat)\n")
	if withModel {
		b.WriteString("(get-model)\n")
	}
	return b.String()
}

// solveAll discharges obligations in parallel.
func solveAll(dir string, reps []*FuncReport, filter func(*Obligation) bool, timeoutS int, all bool) []*OblResult {
	type job struct {
		e *Exec
		o *Obligation
	}
	var jobs []job
	for _, r := range reps {
		if r.Err != nil {
			continue
		}
		for _, o := range r.Obls {
			if filter(o) {
				jobs = append(jobs, job{r.Exec, o})
			}
		}
	}
	if df := os.Getenv("GOVC_DIGEST"); df != "" {
		// determinism probe: one line per obligation with the hash of its full script
		var lines []string
		for _, j := range jobs {
			sc := j.e.script(j.o, false, false)
			lines = append(lines, fmt.Sprintf("%s %x", j.o.Name, md5.Sum([]byte(sc))))
			if fnf := os.Getenv("GOVC_DIGEST_FN"); fnf != "" && strings.Contains(j.o.Name, fnf) {
				_ = os.WriteFile(df+"."+sanitizeFile(j.o.Name)+".smt2", []byte(sc), 0o644)
			}
		}
		sort.Strings(lines)
		_ = os.WriteFile(df, []byte(strings.Join(lines, "\n")+"\n"), 0o644)
	}
	results := make([]*OblResult, len(jobs))
	solveOne := func(j job, timeoutS int, focusedS int) *OblResult {
		// tier 1: focused slice (proving only); tier 2: the full context
		var script string
		var res SolverResult
		if !j.o.ExpectSat {
			script = j.e.script(j.o, false, true)
			res = runSolvers(dir, j.o.Name+".f", script, focusedS, false, false)
		}
		if res.Verdict != "unsat" {
			script = j.e.script(j.o, false, false)
			to := timeoutS
			if j.o.ExpectSat {
				to = min(timeoutS, 3)
			}
			res = runSolvers(dir, j.o.Name, script, to, all && !j.o.ExpectSat, false)
			if !j.o.ExpectSat && res.Verdict != "unsat" && res.Verdict != "sat" {
				// tier 3 (proving only): the ground skeleton. Every quantified hypothesis is replaced by a free proposition that
				// still implies the instances the generator produced for it. Any model of the original script extends to a model
				// of the skeleton (give the proposition the truth value of the formula), so `unsat` here is a proof; nothing
				// else is concluded from it.
				gres := runSolvers(dir, j.o.Name+".g", groundSkeleton(script), focusedS, false, false)
				if gres.Verdict == "unsat" {
					res = gres
					res.Solver += "(ground)"
				}
			}
		} else {
			res.Solver += "(focused)"
		}
		or := &OblResult{O: j.o, Script: script, Res: res}
		switch {
		case j.o.ExpectSat && res.Verdict == "sat":
			or.Status = "cover-ok"
		case j.o.ExpectSat && res.Verdict == "unsat":
			or.Status = "cover-failed"
		case j.o.ExpectSat:
			or.Status = "cover-undecided"
			// the solvers cannot build a model under universally quantified assumptions: retry without the
			// quantified assertions (a weaker set). unsat there is a definite vacuity; sat is reported as weak
			weak := dropQuantifiedAsserts(script)
			wres := runSolvers(dir, j.o.Name+".w", weak, min(timeoutS, 5), false, false)
			switch wres.Verdict {
			case "unsat":
				or.Status = "cover-failed"
				or.Res = wres
			case "sat":
				or.Status = "cover-ok-weak"
				or.Res = wres
			}
		case res.Verdict == "unsat":
			or.Status = "discharged"
		case res.Verdict == "sat":
			or.Status = "failed"
			// get a model from z3
			ms := j.e.script(j.o, true, false)
			mres := runSolvers(dir, j.o.Name+".model", ms, timeoutS, false, true)
			if mres.Verdict == "sat" {
				or.Res.Output = mres.Output
			}
		case res.Verdict == "disagree":
			or.Status = "disagree"
		default:
			or.Status = "undecided"
		}
		return or
	}
	sem := make(chan struct{}, 5)
	done := make(chan int, len(jobs))
	for i, j := range jobs {
		go func(i int, j job) {
			sem <- struct{}{}
			defer func() { <-sem; done <- i }()
			results[i] = solveOne(j, timeoutS, min(timeoutS, 6))
		}(i, j)
	}
	for range jobs {
		<-done
	}
	// second chance, one at a time on an idle machine, for obligations that ran out of time under load
	// (three at a time: each job races three solver processes, so at most nine of the sixteen cores are busy)
	sem2 := make(chan struct{}, 3)
	var wg2 sync.WaitGroup
	for i, r := range results {
		if r.Status == "undecided" && (r.Res.Verdict == "timeout" || r.Res.Verdict == "unknown") {
			wg2.Add(1)
			go func(i int) {
				defer wg2.Done()
				sem2 <- struct{}{}
				defer func() { <-sem2 }()
				nr := solveOne(jobs[i], 3*timeoutS, 2*timeoutS)
				if nr.Status == "discharged" {
					nr.Res.Solver += "(2nd)"
				}
				results[i] = nr
			}(i)
		}
	}
	wg2.Wait()
	sort.Slice(results, func(a, b int) bool { return results[a].O.Name < results[b].O.Name })
	return results
}

type ginvInst struct {
	cl   Clause
	term Term
}

// allGlobalInvs evaluates every package invariant in the scope of its own package.
func (e *Exec) allGlobalInvs(old, cur *State) []ginvInst {
	var out []ginvInst
	for _, pkg := range sortedKeys(globalInvs) {
		scope := e.W.anyFuncOf(pkg)
		if scope == nil {
			continue
		}
		for _, cl := range globalInvs[pkg] {
			env := &Env{vars: map[string]Val{}, cur: cur, old: old, fn: scope, lets: map[string]ast.Expr{}}
			t, err := e.evalBool(env, cl.Expr)
			if err != nil {
				panic(fmt.Sprintf("fatal: global-invariant %s: %v", cl.Text, err))
			}
			out = append(out, ginvInst{cl, t})
		}
	}
	return out
}

// writeTargetRef: the heap reference standing for a write target (object, map or slice base).
func (e *Exec) writeTargetRef(v Val) Term {
	if v.Addr != nil {
		return v.Addr.Ref
	}
	if _, ok := unalias(v.T).Underlying().(*types.Slice); ok {
		return app("s_base", v.Term)
	}
	return e.refOfVal(v)
}

var omGroups = map[string][]string{
	"owners":          {"OM_owners_arr", "OM_owners_len", "OM_ctrl_has", "OM_ctrl_uid"},
	"labels":          {"OM_labels_d", "OM_labels_v", "OM_labels_n"},
	"annotations":     {"OM_annotations_d", "OM_annotations_v", "OM_annotations_n"},
	"finalizers":      {"OM_finset", "OM_fins_arr", "OM_fins_len"},
	"status":          {"OM_status", "OM_status_has"},
	"resourceVersion": {"OM_resourceVersion"},
	"namespace":       {"OM_namespace"},
	"content":         {"content"},
}

func allocOnly(syms []string) bool {
	n := 0
	for _, s := range syms {
		if strings.HasPrefix(s, "ALLOC") {
			n++
			continue
		}
		switch s {
		case "assert", ">=", "<=", ">", "<", "=", "and", "=>", "ite":
			continue
		}
		if strings.HasPrefix(s, "ref_") {
			continue
		}
		return false
	}
	return n > 0
}

// dropQuantifiedAsserts removes every top-level (assert ...) line that contains a quantifier.
// groundSkeleton: see tier 3 of solveOne. `(define-fun Q!n () Bool (forall …))` becomes `(declare-const Q!n Bool)`; assertions that
// are themselves quantified are dropped (fewer hypotheses); the goal - the last assertion - is kept as it is.
func groundSkeleton(script string) string {
	lines := strings.Split(script, "\n")
	last := -1
	for i, line := range lines {
		if strings.HasPrefix(line, "(assert ") {
			last = i
		}
	}
	var b strings.Builder
	for i, line := range lines {
		if strings.HasPrefix(line, "(define-fun Q!") && strings.Contains(line, " () Bool (forall ") {
			name := strings.Fields(line)[1]
			b.WriteString("(declare-const " + name + " Bool)\n")
			continue
		}
		if i != last && strings.HasPrefix(line, "(assert ") && (strings.Contains(line, "(forall ") || strings.Contains(line, "(exists ")) {
			continue
		}
		b.WriteString(line)
		b.WriteByte('\n')
	}
	return b.String()
}

func dropQuantifiedAsserts(script string) string {
	var b strings.Builder
	for _, line := range strings.Split(script, "\n") {
		if strings.HasPrefix(line, "(assert ") && (strings.Contains(line, "(forall ") || strings.Contains(line, "(exists ")) && !strings.Contains(line, "(check-sat)") {
			continue
		}
		b.WriteString(line)
		b.WriteByte('\n')
	}
	return b.String()
}
