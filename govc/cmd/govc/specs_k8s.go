package main

import (
	"fmt"
	"go/constant"
	"go/types"
	"strings"

	"golang.org/x/tools/go/ssa"
)

const (
	pkgCtrlUtil = "sigs.k8s.io/controller-runtime/pkg/controller/controllerutil"
	pkgRetry    = "k8s.io/client-go/util/retry"
	pkgDynamic  = "k8s.io/client-go/dynamic"
	pkgAPIErr   = "k8s.io/apimachinery/pkg/api/errors"
	pkgMetaV1   = "k8s.io/apimachinery/pkg/apis/meta/v1"
	pkgUtilErr  = "k8s.io/apimachinery/pkg/util/errors"
	pkgUnstr    = "k8s.io/apimachinery/pkg/apis/meta/v1/unstructured"
)

var errPreds = []string{"IsNotFound", "IsConflict", "IsAlreadyExists", "IsGone", "IsTooManyRequests"}

func (e *Exec) finset(st *State) (Term, string) {
	return e.omComp(st, "OM_finset", "(Array String Bool)")
}

func resTuple(cc *callCtx) *types.Tuple {
	if t, ok := cc.resT.(*types.Tuple); ok {
		return t
	}
	return nil
}

func init() {
	specTable[pkgCtrlUtil+".ContainsFinalizer"] = func(e *Exec, cc *callCtx) Val {
		c, _ := e.finset(cc.st)
		return Val{T: cc.resT, Term: e.define(cc.f.prefix+"hasfin", "Bool", Select(Select(c, e.refOfVal(cc.args[0])), cc.args[1].Term))}
	}
	specTable[pkgCtrlUtil+".AddFinalizer"] = func(e *Exec, cc *callCtx) Val {
		c, cs := e.finset(cc.st)
		r := e.refOfVal(cc.args[0])
		e.frameWriteRef(cc.f, cc.st, cc.reach, r, "AddFinalizer")
		had := Select(Select(c, r), cc.args[1].Term)
		e.setComp(cc.st, "OM_finset", cs, Store(c, r, Store(Select(c, r), cc.args[1].Term, "true")))
		e.finListChanged(cc.st, r)
		return Val{T: cc.resT, Term: Not(had)}
	}
	specTable[pkgCtrlUtil+".RemoveFinalizer"] = func(e *Exec, cc *callCtx) Val {
		c, cs := e.finset(cc.st)
		r := e.refOfVal(cc.args[0])
		e.frameWriteRef(cc.f, cc.st, cc.reach, r, "RemoveFinalizer")
		had := Select(Select(c, r), cc.args[1].Term)
		e.setComp(cc.st, "OM_finset", cs, Store(c, r, Store(Select(c, r), cc.args[1].Term, "false")))
		e.finListChanged(cc.st, r)
		return Val{T: cc.resT, Term: had}
	}
	// retry.RetryOnConflict(backoff, fn): fn runs one or more times; the last result is returned.
	specTable[pkgRetry+".RetryOnConflict"] = func(e *Exec, cc *callCtx) Val {
		fv := cc.args[1]
		if fv.Clo == nil {
			e.note("RetryOnConflict with unknown closure")
			return e.havocVal(cc.resT, "retry")
		}
		// earlier iterations may have modified anything the closure can modify
		ms := e.modsOfCall(fv.Clo.Fn, nil, fv.Clo.Bindings, cc.st)
		for k := range ms {
			if strings.HasPrefix(k, "CALLED_") || strings.HasPrefix(k, "COUNT_") || strings.HasPrefix(k, "REQ_") {
				delete(ms, k) // ghost call flags/counters: earlier iterations are not counted
			}
		}
		e.applyHavoc(cc.st, ms)
		e.inlineStack = append(e.inlineStack, fv.Clo.Fn)
		_, rr := e.runBody(fv.Clo.Fn, nil, fv.Clo.Bindings, cc.st, cc.reach, nil, cc.f.depth+1)
		e.inlineStack = e.inlineStack[:len(e.inlineStack)-1]
		cc.st.comps = rr.state.comps
		return e.packResult(cc.resT, rr.rets)
	}
	// (*sync.Once).Do(f): f runs at most once; whether this call is the one that runs it is unknown
	specTable["(*sync.Once).Do"] = func(e *Exec, cc *callCtx) Val {
		fv := cc.args[1]
		if fv.Clo == nil {
			e.note("sync.Once.Do with unknown function")
			return Val{T: cc.resT, Term: "0"}
		}
		runs := e.fresh(cc.f.prefix+"once_runs", "Bool")
		before := cc.st.clone()
		e.inlineStack = append(e.inlineStack, fv.Clo.Fn)
		_, rr := e.runBody(fv.Clo.Fn, nil, fv.Clo.Bindings, cc.st, And(cc.reach, runs), nil, cc.f.depth+1)
		e.inlineStack = e.inlineStack[:len(e.inlineStack)-1]
		merged := e.mergeStates([]*State{rr.state, before}, []Term{runs, "true"})
		cc.st.comps = merged.comps
		return Val{T: cc.resT, Term: "0"}
	}
	for _, p := range errPreds {
		p := p
		specTable[pkgAPIErr+"."+p] = func(e *Exec, cc *callCtx) Val {
			return Val{T: cc.resT, Term: e.define(cc.f.prefix+p, "Bool", e.errPred(p, cc.args[0].Term))}
		}
	}
	specTable[pkgAPIErr+".NewNotFound"] = func(e *Exec, cc *callCtx) Val {
		r := e.freshRef(cc.st, "statuserr")
		v := r
		if types.IsInterface(cc.resT) {
			v = e.fresh(cc.f.prefix+"notfound", "Any")
			e.assume(Not(Eq(v, "nil_any")), "")
		}
		e.assume(e.errPred("IsNotFound", e.asAny(cc.resT, v)), "NewNotFound yields a NotFound error")
		for _, p := range errPreds {
			if p != "IsNotFound" {
				e.assume(Not(e.errPred(p, e.asAny(cc.resT, v))), "")
			}
		}
		return Val{T: cc.resT, Term: v}
	}
	specTable["fmt.Errorf"] = func(e *Exec, cc *callCtx) Val {
		v := e.fresh(cc.f.prefix+"errorf", "Any")
		e.assume(Not(Eq(v, "nil_any")), "fmt.Errorf returns a non-nil error")
		// %w keeps the classification of the wrapped error
		wraps := false
		if c, ok := cc.common.Args[0].(*ssa.Const); ok && c.Value != nil && c.Value.Kind() == constant.String {
			wraps = strings.Contains(constant.StringVal(c.Value), "%w")
		}
		var wrapped []Term
		if wraps {
			wrapped = e.varargErrors(cc)
		}
		for _, p := range append(append([]string{}, errPreds...), "isTMR") {
			if len(wrapped) == 1 {
				e.assume(Eq(e.errPred(p, v), e.errPred(p, wrapped[0])), "fmt.Errorf(%w) preserves error classification")
			} else if !wraps {
				e.assume(Not(e.errPred(p, v)), "")
			}
		}
		return Val{T: cc.resT, Term: v}
	}
	// errors.As(err, &target) for *hooks.TooManyRequestError: classification predicate + non-nil target on success
	specTable["errors.As"] = func(e *Exec, cc *callCtx) Val {
		res := e.define(cc.f.prefix+"errorsAs", "Bool", e.errPred("isTMR", cc.args[0].Term))
		tgt := cc.args[1]
		if pt, ok := e.boxType[tgt.Term]; ok {
			if inner := deref(pt); inner != nil && isRefLike(inner) {
				r := e.boxOf[tgt.Term]
				n, so := e.heapName(inner)
				h := e.comp(cc.st, n, so)
				fr := e.freshRef(cc.st, "astarget")
				e.setComp(cc.st, n, so, Ite(res, Store(h, r, fr), h))
			}
		}
		return Val{T: cc.resT, Term: res}
	}
	specFuncs["isTMR"] = func(e *Exec, env *Env, args []Val) (Val, error) {
		return Val{T: tBool, Term: e.errPred("isTMR", args[0].Term)}, nil
	}
	specTable["errors.New"] = func(e *Exec, cc *callCtx) Val {
		v := e.fresh(cc.f.prefix+"errnew", "Any")
		e.assume(Not(Eq(v, "nil_any")), "errors.New returns a non-nil error")
		for _, p := range append(append([]string{}, errPreds...), "isTMR") {
			e.assume(Not(e.errPred(p, v)), "")
		}
		return Val{T: cc.resT, Term: v}
	}
	specTable[pkgUtilErr+".NewAggregate"] = func(e *Exec, cc *callCtx) Val {
		s := cc.args[0]
		st := cc.st
		n, so := e.arrName(tError())
		row := Select(e.comp(st, n, so), app("s_base", s.Term))
		v := e.fresh(cc.f.prefix+"aggregate", "Any")
		l := app("s_len", s.Term)
		off := app("s_off", s.Term)
		wit := e.fresh(cc.f.prefix+"aggwit", "Int")
		e.assume(Implies(Eq(l, "0"), Eq(v, "nil_any")), "NewAggregate(empty) == nil")
		e.assume(Implies(Not(Eq(v, "nil_any")), And(app("<=", "0", wit), app("<", wit, l), Not(Eq(Select(row, app("+", off, wit)), "nil_any")))), "NewAggregate != nil only if some element is non-nil")
		e.assume(Implies(Eq(v, "nil_any"), fmt.Sprintf("(forall ((iq Int)) (! (=> (and (<= 0 iq) (< iq %s)) (= (select %s (+ %s iq)) nil_any)) :pattern ((select %s (+ %s iq)))))", l, row, off, row, off)), "NewAggregate == nil only if all elements are nil")
		return Val{T: cc.resT, Term: v}
	}
	// metav1.GetControllerOf(obj): the controller owner reference, as an abstract observer
	specTable[pkgMetaV1+".GetControllerOf"] = func(e *Exec, cc *callCtx) Val {
		st := cc.st
		r := e.refOfVal(cc.args[0])
		has, _ := e.omComp(st, "OM_ctrl_has", "Bool")
		uid, _ := e.omComp(st, "OM_ctrl_uid", "String")
		el := deref(cc.resT)
		res := e.fresh("ref_"+cc.f.prefix+"ctrlref", "Int")
		a := e.allocCtr(st)
		e.assume(Or(And(Eq(res, "0"), Not(Select(has, r))), And(app(">", res, a), Select(has, r))), "GetControllerOf returns nil iff there is no controller reference")
		st.comps[allocComp] = e.define("ALLOC", "Int", Ite(Eq(res, "0"), a, res))
		// the returned struct's UID field is the abstract controller UID
		n, so := e.heapName(el)
		h := e.comp(st, n, so)
		cell := e.fresh(cc.f.prefix+"ctrlcell", e.reg.sortOf(el))
		si := e.reg.structOf(el)
		for i := 0; i < si.st.NumFields(); i++ {
			if si.st.Field(i).Name() == "UID" {
				e.assume(Eq(app(si.fields[i], cell), Select(uid, r)), "")
			}
		}
		e.setComp(st, n, so, Ite(Eq(res, "0"), h, Store(h, res, cell)))
		return Val{T: cc.resT, Term: res}
	}
	// dynamic.ResourceInterface: API requests
	for _, iface := range []string{"ResourceInterface", "NamespaceableResourceInterface"} {
		for _, m := range []string{"Get", "Create", "Update", "UpdateStatus", "Delete", "Patch", "List"} {
			m := m
			specTable[fmt.Sprintf("(%s.%s).%s", pkgDynamic, iface, m)] = func(e *Exec, cc *callCtx) Val { return e.apiRequest(cc, m) }
		}
		specTable[fmt.Sprintf("(%s.%s).Namespace", pkgDynamic, iface)] = func(e *Exec, cc *callCtx) Val {
			v := e.uninterp("ri_namespace", cc.args, cc.resT)
			e.declFun("ri_ns", []string{"Any"}, "String")
			e.declFun("ri_root", []string{"Any"}, "Any")
			e.assume(And(Eq(app("ri_ns", v.Term), cc.args[1].Term), Eq(app("ri_root", v.Term), cc.args[0].Term), Not(Eq(v.Term, "nil_any"))), "Namespace(ns) addresses namespace ns of the same resource")
			return v
		}
	}
	specTable["k8s.io/apimachinery/pkg/runtime/schema.ParseGroupVersion"] = func(e *Exec, cc *callCtx) Val {
		v := e.uninterp("ext_schema.ParseGroupVersion", cc.args, cc.resT)
		e.declFun("ufb_validGroupVersion", []string{"String"}, "Bool")
		e.assume(Eq(Eq(v.Tup[1].Term, "nil_any"), app("ufb_validGroupVersion", cc.args[0].Term)), "ParseGroupVersion succeeds exactly on valid group/versions")
		return v
	}
	specTable["(k8s.io/client-go/dynamic.Interface).Resource"] = func(e *Exec, cc *callCtx) Val {
		v := e.uninterp("ext_dynamic.Interface.Resource", cc.args, cc.resT)
		e.assume(Not(Eq(v.Term, "nil_any")), "dynamic.Interface.Resource returns a client")
		return v
	}
	specTable["reflect.DeepEqual"] = func(e *Exec, cc *callCtx) Val {
		return Val{T: cc.resT, Term: e.define(cc.f.prefix+"deq", "Bool", e.deepEqualAny(cc.args[0].Term, cc.args[1].Term))}
	}
	specFuncs["ownerLen"] = func(e *Exec, env *Env, args []Val) (Val, error) {
		c, _ := e.omComp(env.cur, "OM_owners_len", "Int")
		return Val{T: tInt, Term: Select(c, e.refOfVal(args[0]))}, nil
	}
	specFuncs["ownerAt"] = func(e *Exec, env *Env, args []Val) (Val, error) {
		t := e.W.lookupType(pkgMetaV1, "OwnerReference")
		if t == nil {
			return Val{}, fmt.Errorf("metav1.OwnerReference not found")
		}
		c, _ := e.omComp(env.cur, "OM_owners_arr", "(Array Int "+e.reg.sortOf(t)+")")
		return Val{T: t, Term: Select(Select(c, e.refOfVal(args[0])), args[1].Term)}, nil
	}
	// work queues: Get returns something that was added; every Add site in the repository adds a string
	// key (obligations effect@Add* of the enqueue functions), so items are strings
	for _, m := range []string{"Get"} {
		for _, iface := range []string{"TypedRateLimitingInterface[any]", "TypedInterface[any]", "TypedDelayingInterface[any]"} {
			specTable[fmt.Sprintf("(k8s.io/client-go/util/workqueue.%s).%s", iface, m)] = func(e *Exec, cc *callCtx) Val {
				v := e.havocVal(cc.resT, cc.f.prefix+"queueGet")
				ok, _ := e.reg.unbox(tString, v.Tup[0].Term)
				e.assume(Implies(Not(v.Tup[1].Term), ok), "queue items are the string keys that were added")
				return v
			}
		}
	}
	specFuncs["riNamespace"] = func(e *Exec, env *Env, args []Val) (Val, error) {
		e.declFun("ri_ns", []string{"Any"}, "String")
		return Val{T: tString, Term: app("ri_ns", args[0].Term)}, nil
	}
	specFuncs["riRoot"] = func(e *Exec, env *Env, args []Val) (Val, error) {
		e.declFun("ri_root", []string{"Any"}, "Any")
		return Val{T: tAny, Term: app("ri_root", args[0].Term)}, nil
	}
}

var errorType types.Type

func tError() types.Type {
	if errorType == nil {
		errorType = types.Universe.Lookup("error").Type()
	}
	return errorType
}

func (e *Exec) asAny(t types.Type, v Term) Term {
	if types.IsInterface(t) {
		return v
	}
	return e.reg.box(t, v)
}

// varargErrors: error-typed values packed into the variadic argument of the call.
func (e *Exec) varargErrors(cc *callCtx) []Term {
	var out []Term
	last := cc.common.Args[len(cc.common.Args)-1]
	sl, ok := last.(*ssa.Slice)
	if !ok {
		return nil
	}
	al, ok := sl.X.(*ssa.Alloc)
	if !ok {
		return nil
	}
	for _, ref := range *al.Referrers() {
		ia, ok := ref.(*ssa.IndexAddr)
		if !ok {
			continue
		}
		for _, r2 := range *ia.Referrers() {
			if stv, ok := r2.(*ssa.Store); ok {
				val := stv.Val
				if mi, ok := val.(*ssa.MakeInterface); ok {
					val = mi.X
				}
				if ci, ok := val.(*ssa.ChangeInterface); ok {
					val = ci.X
				}
				if types.Identical(val.Type(), tError()) || types.Implements(val.Type(), tError().Underlying().(*types.Interface)) {
					if v, ok := cc.f.vals[val]; ok {
						out = append(out, e.asAny(val.Type(), v.Term))
					}
				}
			}
		}
	}
	return out
}

// finListChanged: the list view of the finalizers of r is no longer known.
func (e *Exec) finListChanged(st *State, r Term) {
	for _, c := range []string{"OM_fins_arr", "OM_fins_len"} {
		if _, ok := e.compSort[c]; ok {
			e.havocCompAt(st, c, r)
		}
	}
}

// apiRequest: a request to the API server through a dynamic client. The result is unconstrained
// except for the identity echo on success; every error is possible at every request.
func (e *Exec) apiRequest(cc *callCtx, verb string) Val {
	st := cc.st
	tup := resTuple(cc)
	errV := e.fresh(cc.f.prefix+verb+"_err", "Any")
	// ghost request counters
	cn := "REQ_" + verb
	old := e.comp(st, cn, "Int")
	e.setComp(st, cn, "Int", app("+", old, "1"))
	if tup == nil {
		// Delete: only an error
		return Val{T: cc.resT, Term: errV}
	}
	res := e.fresh("ref_"+cc.f.prefix+verb+"_res", "Int")
	a := e.allocCtr(st)
	e.assume(Or(And(Eq(res, "0"), Not(Eq(errV, "nil_any"))), And(app(">", res, a), Eq(errV, "nil_any"))), "a request returns an object or an error")
	st.comps[allocComp] = e.define("ALLOC", "Int", Ite(Eq(res, "0"), a, res))
	if _, ok := e.compSort["CACHED"]; ok {
		e.assume(Not(Select(e.comp(st, "CACHED", "(Array Int Bool)"), res)), "objects returned by a request are not cache members")
	}
	switch verb {
	case "Create", "Update", "UpdateStatus":
		// identity (and finalizer) echo on success: the server returns the object it was sent
		var sent Val
		for _, x := range cc.args {
			if p := deref(x.T); p != nil && strings.HasSuffix(p.String(), "Unstructured") {
				sent = x
			}
		}
		if sent.T != nil {
			for _, oc := range []string{"OM_name", "OM_namespace", "OM_uid", "OM_kind", "OM_apiVersion"} {
				c, _ := e.omComp(st, oc, "String")
				e.assume(Implies(Eq(errV, "nil_any"), Eq(Select(c, res), Select(c, sent.Term))), "API server echoes identity")
			}
			c, _ := e.finset(st)
			e.assume(Implies(Eq(errV, "nil_any"), Eq(Select(c, res), Select(c, sent.Term))), "API server echoes finalizers")
		}
	}
	out := Val{T: cc.resT}
	for i := 0; i < tup.Len(); i++ {
		if types.Identical(tup.At(i).Type(), tError()) {
			out.Tup = append(out.Tup, Val{T: tup.At(i).Type(), Term: errV})
		} else {
			out.Tup = append(out.Tup, Val{T: tup.At(i).Type(), Term: res})
		}
	}
	return out
}
