package main

import (
	"fmt"
	"go/constant"
	"go/types"
	"strings"

	"golang.org/x/tools/go/ssa"
)

const (
	pkgCtrlUtil = "sigs.k8s.io/controller-runtime/pkg/controller/controllerutil"
	pkgRetry    = "k8s.io/client-go/util/retry"
	pkgDynamic  = "k8s.io/client-go/dynamic"
	pkgAPIErr   = "k8s.io/apimachinery/pkg/api/errors"
	pkgMetaV1   = "k8s.io/apimachinery/pkg/apis/meta/v1"
	pkgUtilErr  = "k8s.io/apimachinery/pkg/util/errors"
	pkgUnstr    = "k8s.io/apimachinery/pkg/apis/meta/v1/unstructured"
)

var errPreds = []string{"IsNotFound", "IsConflict", "IsAlreadyExists", "IsGone", "IsTooManyRequests"}

func (e *Exec) finset(st *State) (Term, string) {
	return e.omComp(st, "OM_finset", "(Array String Bool)")
}

func resTuple(cc *callCtx) *types.Tuple {
	if t, ok := cc.resT.(*types.Tuple); ok {
		return t
	}
	return nil
}

func init() {
	specTable[pkgCtrlUtil+".ContainsFinalizer"] = func(e *Exec, cc *callCtx) Val {
		c, _ := e.finset(cc.st)
		return Val{T: cc.resT, Term: e.define(cc.f.prefix+"hasfin", "Bool", Select(Select(c, e.refOfVal(cc.args[0])), cc.args[1].Term))}
	}
	specTable[pkgCtrlUtil+".AddFinalizer"] = func(e *Exec, cc *callCtx) Val {
		c, cs := e.finset(cc.st)
		r := e.refOfVal(cc.args[0])
		e.frameWriteRef(cc.f, cc.st, cc.reach, r, "AddFinalizer")
		had := Select(Select(c, r), cc.args[1].Term)
		e.setComp(cc.st, "OM_finset", cs, Store(c, r, Store(Select(c, r), cc.args[1].Term, "true")))
		e.finListChanged(cc.st, r)
		return Val{T: cc.resT, Term: Not(had)}
	}
	specTable[pkgCtrlUtil+".RemoveFinalizer"] = func(e *Exec, cc *callCtx) Val {
		c, cs := e.finset(cc.st)
		r := e.refOfVal(cc.args[0])
		e.frameWriteRef(cc.f, cc.st, cc.reach, r, "RemoveFinalizer")
		had := Select(Select(c, r), cc.args[1].Term)
		e.setComp(cc.st, "OM_finset", cs, Store(c, r, Store(Select(c, r), cc.args[1].Term, "false")))
		e.finListChanged(cc.st, r)
		return Val{T: cc.resT, Term: had}
	}
	// retry.RetryOnConflict(backoff, fn): fn runs one or more times; the last result is returned.
	specTable[pkgRetry+".RetryOnConflict"] = func(e *Exec, cc *callCtx) Val {
		fv := cc.args[1]
		if fv.Clo == nil {
			e.note("RetryOnConflict with unknown closure")
			return e.havocVal(cc.resT, "retry")
		}
		// earlier iterations may have modified anything the closure can modify
		ms := e.modsOfCall(fv.Clo.Fn, nil, fv.Clo.Bindings, cc.st)
		for k := range ms {
			if strings.HasPrefix(k, "CALLED_") || strings.HasPrefix(k, "COUNT_") || strings.HasPrefix(k, "REQ_") {
				delete(ms, k) // ghost call flags/counters: earlier iterations are not counted
			}
		}
		e.applyHavoc(cc.st, ms)
		e.inlineStack = append(e.inlineStack, fv.Clo.Fn)
		_, rr := e.runBody(fv.Clo.Fn, nil, fv.Clo.Bindings, cc.st, cc.reach, nil, cc.f.depth+1)
		e.inlineStack = e.inlineStack[:len(e.inlineStack)-1]
		cc.st.comps = rr.state.comps
		return e.packResult(cc.resT, rr.rets)
	}
	// (*sync.Once).Do(f): f runs at most once; whether this call is the one that runs it is unknown
	specTable["(*sync.Once).Do"] = func(e *Exec, cc *callCtx) Val {
		fv := cc.args[1]
		if fv.Clo == nil {
			e.note("sync.Once.Do with unknown function")
			return Val{T: cc.resT, Term: "0"}
		}
		runs := e.fresh(cc.f.prefix+"once_runs", "Bool")
		before := cc.st.clone()
		e.inlineStack = append(e.inlineStack, fv.Clo.Fn)
		_, rr := e.runBody(fv.Clo.Fn, nil, fv.Clo.Bindings, cc.st, And(cc.reach, runs), nil, cc.f.depth+1)
		e.inlineStack = e.inlineStack[:len(e.inlineStack)-1]
		merged := e.mergeStates([]*State{rr.state, before}, []Term{runs, "true"})
		cc.st.comps = merged.comps
		return Val{T: cc.resT, Term: "0"}
	}
	for _, p := range errPreds {
		p := p
		specTable[pkgAPIErr+"."+p] = func(e *Exec, cc *callCtx) Val {
			return Val{T: cc.resT, Term: e.define(cc.f.prefix+p, "Bool", e.errPred(p, cc.args[0].Term))}
		}
	}
	specTable[pkgAPIErr+".NewNotFound"] = func(e *Exec, cc *callCtx) Val {
		r := e.freshRef(cc.st, "statuserr")
		v := r
		if types.IsInterface(cc.resT) {
			v = e.fresh(cc.f.prefix+"notfound", "Any")
			e.assume(Not(Eq(v, "nil_any")), "")
		}
		e.assume(e.errPred("IsNotFound", e.asAny(cc.resT, v)), "NewNotFound yields a NotFound error")
		for _, p := range errPreds {
			if p != "IsNotFound" {
				e.assume(Not(e.errPred(p, e.asAny(cc.resT, v))), "")
			}
		}
		return Val{T: cc.resT, Term: v}
	}
	specTable["fmt.Errorf"] = func(e *Exec, cc *callCtx) Val {
		v := e.fresh(cc.f.prefix+"errorf", "Any")
		e.assume(Not(Eq(v, "nil_any")), "fmt.Errorf returns a non-nil error")
		// %w keeps the classification of the wrapped error
		wraps := false
		if c, ok := cc.common.Args[0].(*ssa.Const); ok && c.Value != nil && c.Value.Kind() == constant.String {
			wraps = strings.Contains(constant.StringVal(c.Value), "%w")
		}
		var wrapped []Term
		if wraps {
			wrapped = e.varargErrors(cc)
		}
		for _, p := range append(append([]string{}, errPreds...), "isTMR") {
			if len(wrapped) == 1 {
				e.assume(Eq(e.errPred(p, v), e.errPred(p, wrapped[0])), "fmt.Errorf(%w) preserves error classification")
			} else if !wraps {
				e.assume(Not(e.errPred(p, v)), "")
			}
		}
		return Val{T: cc.resT, Term: v}
	}
	// errors.As(err, &target) for *hooks.TooManyRequestError: classification predicate + non-nil target on success
	specTable["errors.As"] = func(e *Exec, cc *callCtx) Val {
		res := e.define(cc.f.prefix+"errorsAs", "Bool", e.errPred("isTMR", cc.args[0].Term))
		tgt := cc.args[1]
		if pt, ok := e.boxType[tgt.Term]; ok {
			if inner := deref(pt); inner != nil && isRefLike(inner) {
				r := e.boxOf[tgt.Term]
				n, so := e.heapName(inner)
				h := e.comp(cc.st, n, so)
				fr := e.freshRef(cc.st, "astarget")
				e.setComp(cc.st, n, so, Ite(res, Store(h, r, fr), h))
			}
		}
		return Val{T: cc.resT, Term: res}
	}
	specFuncs["isTMR"] = func(e *Exec, env *Env, args []Val) (Val, error) {
		return Val{T: tBool, Term: e.errPred("isTMR", args[0].Term)}, nil
	}
	// fmt.Sprintf with a constant format made of %s / %v verbs over string-like arguments: exact concatenation
	specTable["fmt.Sprintf"] = func(e *Exec, cc *callCtx) Val {
		if t, ok := e.sprintfConcat(cc); ok {
			return Val{T: cc.resT, Term: e.define(cc.f.prefix+"sprintf", "String", t)}
		}
		e.assumes["default-pure:fmt.Sprintf"] = true
		return e.uninterp("ext_fmt.Sprintf", cc.args, cc.resT)
	}
	specFuncs["closed"] = func(e *Exec, env *Env, args []Val) (Val, error) {
		return Val{T: tBool, Term: Select(e.comp(env.cur, "CLOSED", "(Array Int Bool)"), args[0].Term)}, nil
	}
	specFuncs["locked"] = func(e *Exec, env *Env, args []Val) (Val, error) {
		return Val{T: tBool, Term: Select(e.comp(env.cur, "LOCKED", "(Array Int Bool)"), e.lockKey(args[0]))}, nil
	}
	for _, m := range []string{"Lock", "RLock"} {
		for _, t := range []string{"Mutex", "RWMutex"} {
			specTable["(*sync."+t+")."+m] = func(e *Exec, cc *callCtx) Val {
				c := e.comp(cc.st, "LOCKED", "(Array Int Bool)")
				e.setComp(cc.st, "LOCKED", "(Array Int Bool)", Store(c, e.lockKey(cc.args[0]), "true"))
				return Val{T: cc.resT, Term: "0"}
			}
		}
	}
	for _, m := range []string{"Unlock", "RUnlock"} {
		for _, t := range []string{"Mutex", "RWMutex"} {
			specTable["(*sync."+t+")."+m] = func(e *Exec, cc *callCtx) Val {
				c := e.comp(cc.st, "LOCKED", "(Array Int Bool)")
				e.setComp(cc.st, "LOCKED", "(Array Int Bool)", Store(c, e.lockKey(cc.args[0]), "false"))
				return Val{T: cc.resT, Term: "0"}
			}
		}
	}
	specTable["errors.New"] = func(e *Exec, cc *callCtx) Val {
		v := e.fresh(cc.f.prefix+"errnew", "Any")
		e.assume(Not(Eq(v, "nil_any")), "errors.New returns a non-nil error")
		for _, p := range append(append([]string{}, errPreds...), "isTMR") {
			e.assume(Not(e.errPred(p, v)), "")
		}
		return Val{T: cc.resT, Term: v}
	}
	specTable[pkgUtilErr+".NewAggregate"] = func(e *Exec, cc *callCtx) Val {
		s := cc.args[0]
		st := cc.st
		n, so := e.arrName(tError())
		row := Select(e.comp(st, n, so), app("s_base", s.Term))
		v := e.fresh(cc.f.prefix+"aggregate", "Any")
		l := app("s_len", s.Term)
		off := app("s_off", s.Term)
		wit := e.fresh(cc.f.prefix+"aggwit", "Int")
		e.assume(Implies(Eq(l, "0"), Eq(v, "nil_any")), "NewAggregate(empty) == nil")
		e.assume(Implies(Not(Eq(v, "nil_any")), And(app("<=", "0", wit), app("<", wit, l), Not(Eq(Select(row, app("+", off, wit)), "nil_any")))), "NewAggregate != nil only if some element is non-nil")
		e.assume(Implies(Eq(v, "nil_any"), fmt.Sprintf("(forall ((iq Int)) (! (=> (and (<= 0 iq) (< iq %s)) (= (select %s (+ %s iq)) nil_any)) :pattern ((select %s (+ %s iq)))))", l, row, off, row, off)), "NewAggregate == nil only if all elements are nil")
		return Val{T: cc.resT, Term: v}
	}
	// metav1.GetControllerOf(obj): the controller owner reference, as an abstract observer
	specTable[pkgMetaV1+".GetControllerOf"] = func(e *Exec, cc *callCtx) Val {
		st := cc.st
		r := e.refOfVal(cc.args[0])
		has, _ := e.omComp(st, "OM_ctrl_has", "Bool")
		uid, _ := e.omComp(st, "OM_ctrl_uid", "String")
		el := deref(cc.resT)
		res := e.fresh("ref_"+cc.f.prefix+"ctrlref", "Int")
		a := e.allocCtr(st)
		e.assume(Or(And(Eq(res, "0"), Not(Select(has, r))), And(app(">", res, a), Select(has, r))), "GetControllerOf returns nil iff there is no controller reference")
		st.comps[allocComp] = e.define("ALLOC", "Int", Ite(Eq(res, "0"), a, res))
		// the returned struct's UID field is the abstract controller UID
		n, so := e.heapName(el)
		h := e.comp(st, n, so)
		cell := e.fresh(cc.f.prefix+"ctrlcell", e.reg.sortOf(el))
		si := e.reg.structOf(el)
		for i := 0; i < si.st.NumFields(); i++ {
			if si.st.Field(i).Name() == "UID" {
				e.assume(Eq(app(si.fields[i], cell), Select(uid, r)), "")
			}
		}
		e.setComp(st, n, so, Ite(Eq(res, "0"), h, Store(h, res, cell)))
		return Val{T: cc.resT, Term: res}
	}
	// dynamic.ResourceInterface: API requests
	for _, iface := range []string{"ResourceInterface", "NamespaceableResourceInterface"} {
		for _, m := range []string{"Get", "Create", "Update", "UpdateStatus", "Delete", "Patch", "List"} {
			m := m
			specTable[fmt.Sprintf("(%s.%s).%s", pkgDynamic, iface, m)] = func(e *Exec, cc *callCtx) Val { return e.apiRequest(cc, m) }
		}
		specTable[fmt.Sprintf("(%s.%s).Namespace", pkgDynamic, iface)] = func(e *Exec, cc *callCtx) Val {
			v := e.uninterp("ri_namespace", cc.args, cc.resT)
			e.declFun("ri_ns", []string{"Any"}, "String")
			e.declFun("ri_root", []string{"Any"}, "Any")
			e.assume(And(Eq(app("ri_ns", v.Term), cc.args[1].Term), Eq(app("ri_root", v.Term), cc.args[0].Term), Not(Eq(v.Term, "nil_any"))), "Namespace(ns) addresses namespace ns of the same resource")
			return v
		}
	}
	specTable["k8s.io/apimachinery/pkg/runtime/schema.ParseGroupVersion"] = func(e *Exec, cc *callCtx) Val {
		v := e.uninterp("ext_schema.ParseGroupVersion", cc.args, cc.resT)
		e.declFun("ufb_validGroupVersion", []string{"String"}, "Bool")
		e.assume(Eq(Eq(v.Tup[1].Term, "nil_any"), app("ufb_validGroupVersion", cc.args[0].Term)), "ParseGroupVersion succeeds exactly on valid group/versions")
		return v
	}
	specTable["(k8s.io/client-go/dynamic.Interface).Resource"] = func(e *Exec, cc *callCtx) Val {
		v := e.uninterp("ext_dynamic.Interface.Resource", cc.args, cc.resT)
		e.assume(Not(Eq(v.Term, "nil_any")), "dynamic.Interface.Resource returns a client")
		return v
	}
	specTable["net/http.NewRequest"] = func(e *Exec, cc *callCtx) Val {
		v := e.havocVal(cc.resT, cc.f.prefix+"newRequest")
		e.refBoundNew(cc.st, v)
		req := v.Tup[0]
		el := deref(req.T)
		si := e.reg.structOf(el)
		n, so := e.heapName(el)
		cell := Select(e.comp(cc.st, n, so), req.Term)
		hdr := "0"
		for i := 0; i < si.st.NumFields(); i++ {
			if si.st.Field(i).Name() == "Header" {
				hdr = app(si.fields[i], cell)
			}
		}
		e.assume(Or(And(Eq(v.Tup[1].Term, "nil_any"), app(">", req.Term, e.compInit[allocComp]), Not(Eq(hdr, "0"))), And(Not(Eq(v.Tup[1].Term, "nil_any")), Eq(req.Term, "0"))), "http.NewRequest returns a request with a header map, or an error")
		return v
	}
	specTable["(metacontroller/pkg/hooks.HttpClientInterface).Do"] = func(e *Exec, cc *callCtx) Val {
		v := e.havocVal(cc.resT, cc.f.prefix+"httpDo")
		e.refBoundNew(cc.st, v)
		resp := v.Tup[0]
		el := deref(resp.T)
		si := e.reg.structOf(el)
		n, so := e.heapName(el)
		cell := Select(e.comp(cc.st, n, so), resp.Term)
		var facts []Term
		for i := 0; i < si.st.NumFields(); i++ {
			switch si.st.Field(i).Name() {
			case "Body":
				facts = append(facts, Not(Eq(app(si.fields[i], cell), "nil_any")))
			case "Header":
				facts = append(facts, Not(Eq(app(si.fields[i], cell), "0")))
			}
		}
		e.assume(Or(And(Eq(v.Tup[1].Term, "nil_any"), Not(Eq(resp.Term, "0")), And(facts...)), And(Not(Eq(v.Tup[1].Term, "nil_any")), Eq(resp.Term, "0"))), "an HTTP client returns a response with a body, or an error")
		return v
	}
	// constructors of dependencies that never return nil
	for _, k := range []string{
		"k8s.io/client-go/tools/cache.NewSharedIndexInformer",
		"k8s.io/client-go/dynamic/dynamiclister.New",
		"(k8s.io/client-go/tools/cache.SharedIndexInformer).GetIndexer",
		"k8s.io/client-go/util/workqueue.NewTypedRateLimitingQueueWithConfig[any]",
		"k8s.io/client-go/util/workqueue.DefaultTypedControllerRateLimiter[any]",
		"(github.com/go-logr/logr.Logger).WithName",
		"time.NewTicker",
	} {
		k := k
		specTable[k] = func(e *Exec, cc *callCtx) Val {
			v := e.uninterp("ext_"+cleanSym(funcKeyStr(k)), cc.args, cc.resT)
			if e.reg.sortOf(cc.resT) == "Any" {
				e.assume(Not(Eq(v.Term, "nil_any")), k+" does not return nil")
			} else if isRefLike(cc.resT) {
				e.assume(app(">", v.Term, "0"), k+" does not return nil")
			}
			return v
		}
	}
	// unstructured.SetNestedField(obj, value, "key"): with a single path element this is obj[key] = deepcopy(value)
	specTable[pkgUnstr+".SetNestedField"] = func(e *Exec, cc *callCtx) Val {
		k := staticSliceLen(cc.common.Args[2])
		errV := e.fresh(cc.f.prefix+"setnested_err", "Any")
		if k != 1 {
			e.note("SetNestedField with a path of length != 1: content map havocked")
			mt := unalias(cc.args[0].T).Underlying().(*types.Map)
			dn, _, vn, _ := e.mapNames(mt)
			e.havocComp(cc.st, dn)
			e.havocComp(cc.st, vn)
			return Val{T: cc.resT, Term: errV}
		}
		m := cc.args[0]
		mt := unalias(m.T).Underlying().(*types.Map)
		e.safety("nilmap", Not(Eq(m.Term, "0")), cc.reach, "SetNestedField on a nil map (assignment to entry in nil map)")
		e.frameWriteRef(cc.f, cc.st, cc.reach, m.Term, "SetNestedField")
		// the single key
		sl := cc.args[2]
		an, aso := e.arrName(tString)
		key := Select(Select(e.comp(cc.st, an, aso), app("s_base", sl.Term)), app("s_off", sl.Term))
		e.declDcval()
		e.mapStore(cc.st, mt, m.Term, e.define(cc.f.prefix+"nestedkey", "String", key), app("dcval", cc.args[1].Term))
		e.assume(Eq(errV, "nil_any"), "SetNestedField with one path element cannot fail")
		return Val{T: cc.resT, Term: errV}
	}
	// unstructured.NestedMap(obj, "key"): a deep copy of obj[key] if it is a map
	specTable[pkgUnstr+".NestedMap"] = func(e *Exec, cc *callCtx) Val {
		v := e.havocVal(cc.resT, cc.f.prefix+"nestedmap")
		e.refBoundNew(cc.st, v)
		k := staticSliceLen(cc.common.Args[1])
		if k == 1 {
			m := cc.args[0]
			mt := unalias(m.T).Underlying().(*types.Map)
			sl := cc.args[1]
			an, aso := e.arrName(tString)
			key := Select(Select(e.comp(cc.st, an, aso), app("s_base", sl.Term)), app("s_off", sl.Term))
			has := e.mapHas(cc.st, mt, m.Term, key)
			val := e.mapGet(cc.st, mt, m.Term, key)
			e.declDcval()
			rt := resTuple(cc).At(0).Type()
			// found && err == nil ==> result is the (boxed) deep copy of the value; !found ==> nil map
			e.assume(Implies(And(v.Tup[1].Term, Eq(v.Tup[2].Term, "nil_any")), And(has, Eq(e.reg.box(rt, v.Tup[0].Term), app("dcval", val)), app(">", v.Tup[0].Term, e.compInit[allocComp]))), "NestedMap returns a deep copy of the nested map")
			e.assume(Implies(Not(v.Tup[1].Term), Eq(v.Tup[0].Term, "0")), "NestedMap returns nil when the field is absent or on error")
			e.assume(Implies(Not(has), And(Not(v.Tup[1].Term), Eq(v.Tup[2].Term, "nil_any"))), "")
			// a present field is either found (it is a map) or reported as an error (it is something else): never silently 'not found'
			e.assume(Implies(And(has, Eq(v.Tup[2].Term, "nil_any")), v.Tup[1].Term), "NestedMap finds a present field unless it reports an error")
		}
		return v
	}
	// unstructured.NestedStringMap(obj.content, "metadata", "labels"|"annotations"): the object's label/annotation map
	specTable[pkgUnstr+".NestedStringMap"] = func(e *Exec, cc *callCtx) Val {
		v := e.havocVal(cc.resT, cc.f.prefix+"nestedstrmap")
		e.refBoundNew(cc.st, v)
		path := constStrings(cc.common.Args[1])
		if len(path) == 2 && path[0] == "metadata" && (path[1] == "labels" || path[1] == "annotations") {
			la := path[1]
			e.declFun("content_owner", []string{"Int"}, "Int")
			owner := app("content_owner", cc.args[0].Term)
			if o, ok := e.contentOwner[cc.args[0].Term]; ok {
				owner = o // obtained from UnstructuredContent() of that very object
			}
			d, _ := e.omComp(cc.st, "OM_"+la+"_d", "(Array String Bool)")
			vv, _ := e.omComp(cc.st, "OM_"+la+"_v", "(Array String String)")
			dn, ds, vn, vs := e.mapNames(tStringMap)
			m := v.Tup[0].Term
			emptyDom := "((as const (Array String Bool)) false)"
			a := e.allocCtr(cc.st)
			// no error: a fresh copy of the labels (nil when the field is absent, in which case the object has none)
			e.assume(Implies(Eq(v.Tup[2].Term, "nil_any"), And(
				Or(And(Eq(m, "0"), Not(v.Tup[1].Term)), And(app(">", m, a), v.Tup[1].Term)),
				Implies(Not(v.Tup[1].Term), And(Eq(Select(d, owner), emptyDom), Eq(Select(vv, owner), "((as const (Array String String)) \"\")"))))), "NestedStringMap(metadata."+la+") returns a copy of the object's "+la)
			cc.st.comps[allocComp] = e.define("ALLOC", "Int", Ite(app(">", m, a), m, a))
			e.setComp(cc.st, dn, ds, Ite(app(">", m, a), Store(e.comp(cc.st, dn, ds), m, Select(d, owner)), e.comp(cc.st, dn, ds)))
			e.setComp(cc.st, vn, vs, Ite(app(">", m, a), Store(e.comp(cc.st, vn, vs), m, Select(vv, owner)), e.comp(cc.st, vn, vs)))
			e.assume(Implies(Not(Eq(v.Tup[2].Term, "nil_any")), Eq(m, "0")), "")
		}
		return v
	}
	specFuncs["dcval"] = func(e *Exec, env *Env, args []Val) (Val, error) {
		e.declDcval()
		return Val{T: tAny, Term: app("dcval", e.asAny(args[0].T, e.asTerm(args[0])))}, nil
	}
	specTable["strings.SplitN"] = func(e *Exec, cc *callCtx) Val {
		v := e.uninterp("ext_strings.SplitN", cc.args, cc.resT)
		e.wellFormedResult(v)
		n := cc.args[2].Term
		e.assume(Implies(app(">", n, "0"), And(app(">=", app("s_len", v.Term), "1"), app("<=", app("s_len", v.Term), n))), "strings.SplitN(s, sep, n>0) returns between 1 and n substrings")
		return v
	}
	specTable["reflect.DeepEqual"] = func(e *Exec, cc *callCtx) Val {
		// on two map[string]string values: same nil-ness and same content
		ta, oka := e.boxType[cc.args[0].Term]
		tb, okb := e.boxType[cc.args[1].Term]
		if oka && okb && types.Identical(unalias(ta).Underlying(), tStringMap) && types.Identical(unalias(tb).Underlying(), tStringMap) {
			a, b := e.boxOf[cc.args[0].Term], e.boxOf[cc.args[1].Term]
			dn, ds, vn, vs := e.mapNames(tStringMap)
			d, v := e.comp(cc.st, dn, ds), e.comp(cc.st, vn, vs)
			t := And(Eq(Eq(a, "0"), Eq(b, "0")), Eq(Select(d, a), Select(d, b)),
				fmt.Sprintf("(forall ((kq String)) (=> (select %s kq) (= (select %s kq) (select %s kq))))", Select(d, a), Select(v, a), Select(v, b)))
			return Val{T: cc.resT, Term: e.define(cc.f.prefix+"deqmap", "Bool", t)}
		}
		return Val{T: cc.resT, Term: e.define(cc.f.prefix+"deq", "Bool", e.deepEqualAny(cc.args[0].Term, cc.args[1].Term))}
	}
	specFuncs["ownerLen"] = func(e *Exec, env *Env, args []Val) (Val, error) {
		c, _ := e.omComp(env.cur, "OM_owners_len", "Int")
		return Val{T: tInt, Term: Select(c, e.refOfVal(args[0]))}, nil
	}
	specFuncs["ownerAt"] = func(e *Exec, env *Env, args []Val) (Val, error) {
		t := e.W.lookupType(pkgMetaV1, "OwnerReference")
		if t == nil {
			return Val{}, fmt.Errorf("metav1.OwnerReference not found")
		}
		c, _ := e.omComp(env.cur, "OM_owners_arr", "(Array Int "+e.reg.sortOf(t)+")")
		return Val{T: t, Term: Select(Select(c, e.refOfVal(args[0])), args[1].Term)}, nil
	}
	// work queues: Get returns something that was added; every Add site in the repository adds a string
	// key (obligations effect@Add* of the enqueue functions), so items are strings
	for _, m := range []string{"Get"} {
		for _, iface := range []string{"TypedRateLimitingInterface[any]", "TypedInterface[any]", "TypedDelayingInterface[any]"} {
			specTable[fmt.Sprintf("(k8s.io/client-go/util/workqueue.%s).%s", iface, m)] = func(e *Exec, cc *callCtx) Val {
				v := e.havocVal(cc.resT, cc.f.prefix+"queueGet")
				ok, _ := e.reg.unbox(tString, v.Tup[0].Term)
				e.assume(Implies(Not(v.Tup[1].Term), ok), "queue items are the string keys that were added")
				return v
			}
		}
	}
	specFuncs["riNamespace"] = func(e *Exec, env *Env, args []Val) (Val, error) {
		e.declFun("ri_ns", []string{"Any"}, "String")
		return Val{T: tString, Term: app("ri_ns", args[0].Term)}, nil
	}
	specFuncs["riRoot"] = func(e *Exec, env *Env, args []Val) (Val, error) {
		e.declFun("ri_root", []string{"Any"}, "Any")
		return Val{T: tAny, Term: app("ri_root", args[0].Term)}, nil
	}
}

var errorType types.Type

func tError() types.Type {
	if errorType == nil {
		errorType = types.Universe.Lookup("error").Type()
	}
	return errorType
}

func (e *Exec) asAny(t types.Type, v Term) Term {
	if types.IsInterface(t) {
		return v
	}
	return e.reg.box(t, v)
}

// varargErrors: error-typed values packed into the variadic argument of the call.
func (e *Exec) varargErrors(cc *callCtx) []Term {
	var out []Term
	last := cc.common.Args[len(cc.common.Args)-1]
	sl, ok := last.(*ssa.Slice)
	if !ok {
		return nil
	}
	al, ok := sl.X.(*ssa.Alloc)
	if !ok {
		return nil
	}
	for _, ref := range *al.Referrers() {
		ia, ok := ref.(*ssa.IndexAddr)
		if !ok {
			continue
		}
		for _, r2 := range *ia.Referrers() {
			if stv, ok := r2.(*ssa.Store); ok {
				val := stv.Val
				if mi, ok := val.(*ssa.MakeInterface); ok {
					val = mi.X
				}
				if ci, ok := val.(*ssa.ChangeInterface); ok {
					val = ci.X
				}
				if types.Identical(val.Type(), tError()) || types.Implements(val.Type(), tError().Underlying().(*types.Interface)) {
					if v, ok := cc.f.vals[val]; ok {
						out = append(out, e.asAny(val.Type(), v.Term))
					}
				}
			}
		}
	}
	return out
}

// finListChanged: the list view of the finalizers of r is no longer known.
func (e *Exec) finListChanged(st *State, r Term) {
	for _, c := range []string{"OM_fins_arr", "OM_fins_len"} {
		if _, ok := e.compSort[c]; ok {
			e.havocCompAt(st, c, r)
		}
	}
}

// apiRequest: a request to the API server through a dynamic client. The result is unconstrained
// except for the identity echo on success; every error is possible at every request.
func (e *Exec) apiRequest(cc *callCtx, verb string) Val {
	st := cc.st
	tup := resTuple(cc)
	errV := e.fresh(cc.f.prefix+verb+"_err", "Any")
	// ghost request counters
	cn := "REQ_" + verb
	old := e.comp(st, cn, "Int")
	e.setComp(st, cn, "Int", app("+", old, "1"))
	if tup == nil {
		// Delete: only an error
		return Val{T: cc.resT, Term: errV}
	}
	res := e.fresh("ref_"+cc.f.prefix+verb+"_res", "Int")
	a := e.allocCtr(st)
	e.assume(Or(And(Eq(res, "0"), Not(Eq(errV, "nil_any"))), And(app(">", res, a), Eq(errV, "nil_any"))), "a request returns an object or an error")
	st.comps[allocComp] = e.define("ALLOC", "Int", Ite(Eq(res, "0"), a, res))
	if _, ok := e.compSort["CACHED"]; ok {
		e.assume(Not(Select(e.comp(st, "CACHED", "(Array Int Bool)"), res)), "objects returned by a request are not cache members")
	}
	switch verb {
	case "Create", "Update", "UpdateStatus":
		// identity (and finalizer) echo on success: the server returns the object it was sent
		var sent Val
		for _, x := range cc.args {
			if p := deref(x.T); p != nil && strings.HasSuffix(p.String(), "Unstructured") {
				sent = x
			}
		}
		if sent.T != nil {
			for _, oc := range []string{"OM_name", "OM_namespace", "OM_uid", "OM_kind", "OM_apiVersion"} {
				c, _ := e.omComp(st, oc, "String")
				e.assume(Implies(Eq(errV, "nil_any"), Eq(Select(c, res), Select(c, sent.Term))), "API server echoes identity")
			}
			c, _ := e.finset(st)
			e.assume(Implies(Eq(errV, "nil_any"), Eq(Select(c, res), Select(c, sent.Term))), "API server echoes finalizers")
		}
	}
	out := Val{T: cc.resT}
	for i := 0; i < tup.Len(); i++ {
		if types.Identical(tup.At(i).Type(), tError()) {
			out.Tup = append(out.Tup, Val{T: tup.At(i).Type(), Term: errV})
		} else {
			out.Tup = append(out.Tup, Val{T: tup.At(i).Type(), Term: res})
		}
	}
	return out
}

// lockKey: a mutex embedded in a struct is identified by the reference of that struct.
func (e *Exec) lockKey(v Val) Term {
	if v.Addr != nil {
		return v.Addr.Ref
	}
	return e.asTerm(v)
}

// sprintfConcat: the exact result of fmt.Sprintf for "%s"-style formats over string-like arguments.
func (e *Exec) sprintfConcat(cc *callCtx) (Term, bool) {
	c, ok := cc.common.Args[0].(*ssa.Const)
	if !ok || c.Value == nil || c.Value.Kind() != constant.String {
		return "", false
	}
	format := constant.StringVal(c.Value)
	// collect the packed variadic arguments in order
	var vals []ssa.Value
	if len(cc.common.Args) > 1 {
		sl, ok := cc.common.Args[1].(*ssa.Slice)
		if !ok {
			if cst, isC := cc.common.Args[1].(*ssa.Const); isC && cst.Value == nil {
				vals = nil
			} else {
				return "", false
			}
		} else {
			al, ok := sl.X.(*ssa.Alloc)
			if !ok {
				return "", false
			}
			arr, ok := unalias(deref(al.Type())).Underlying().(*types.Array)
			if !ok {
				return "", false
			}
			vals = make([]ssa.Value, arr.Len())
			for _, ref := range *al.Referrers() {
				ia, ok := ref.(*ssa.IndexAddr)
				if !ok {
					continue
				}
				idx, ok := ia.Index.(*ssa.Const)
				if !ok {
					return "", false
				}
				i := int(idx.Int64())
				for _, r2 := range *ia.Referrers() {
					if st, ok := r2.(*ssa.Store); ok {
						vals[i] = st.Val
					}
				}
			}
		}
	}
	var parts []Term
	lit := ""
	ai := 0
	for i := 0; i < len(format); i++ {
		if format[i] != '%' {
			lit += string(format[i])
			continue
		}
		if i+1 >= len(format) {
			return "", false
		}
		i++
		switch format[i] {
		case '%':
			lit += "%"
		case 's', 'v':
			if ai >= len(vals) || vals[ai] == nil {
				return "", false
			}
			v := vals[ai]
			ai++
			if mi, ok := v.(*ssa.MakeInterface); ok {
				v = mi.X
			}
			if e.reg.sortOf(v.Type()) != "String" {
				return "", false
			}
			sv, ok := cc.f.vals[v]
			if !ok {
				if cv, isC := v.(*ssa.Const); isC {
					sv = e.constVal(cv)
				} else {
					return "", false
				}
			}
			if lit != "" {
				parts = append(parts, StrLit(lit))
				lit = ""
			}
			parts = append(parts, sv.Term)
		default:
			return "", false
		}
	}
	if lit != "" {
		parts = append(parts, StrLit(lit))
	}
	if ai != len(vals) {
		return "", false
	}
	switch len(parts) {
	case 0:
		return `""`, true
	case 1:
		return parts[0], true
	}
	return app("str.++", parts...), true
}

// constStrings: the constant strings packed into a variadic ...string argument (nil if not all constant).
func constStrings(v ssa.Value) []string {
	sl, ok := v.(*ssa.Slice)
	if !ok {
		return nil
	}
	al, ok := sl.X.(*ssa.Alloc)
	if !ok {
		return nil
	}
	arr, ok := unalias(deref(al.Type())).Underlying().(*types.Array)
	if !ok {
		return nil
	}
	out := make([]string, arr.Len())
	set := make([]bool, arr.Len())
	for _, ref := range *al.Referrers() {
		ia, ok := ref.(*ssa.IndexAddr)
		if !ok {
			continue
		}
		idx, ok := ia.Index.(*ssa.Const)
		if !ok {
			return nil
		}
		for _, r2 := range *ia.Referrers() {
			if st, ok := r2.(*ssa.Store); ok {
				c, ok := st.Val.(*ssa.Const)
				if !ok || c.Value == nil || c.Value.Kind() != constant.String {
					return nil
				}
				out[idx.Int64()] = constant.StringVal(c.Value)
				set[idx.Int64()] = true
			}
		}
	}
	for _, b := range set {
		if !b {
			return nil
		}
	}
	return out
}
