package main

// Symbolic execution of go/ssa functions into SMT definitions and proof obligations.

import (
	"fmt"
	"os"
	"runtime"
	"sync"
	"go/constant"
	"go/token"
	"go/types"
	"sort"
	"strings"

	"golang.org/x/tools/go/ssa"
)

// ---------------------------------------------------------------------------------------------
// Values

type Val struct {
	T    types.Type
	Term Term
	Addr *Addr
	Tup  []Val
	Clo  *Closure
}

type Closure struct {
	Fn       *ssa.Function
	Bindings []Val
}

const (
	addrHeap = iota
	addrArr
)

type Addr struct {
	Kind int
	Root types.Type // pointee type of the root cell (heap) or element type (arr)
	Ref  Term       // heap reference / array base
	Idx  Term       // index (addrArr)
	Path []int
	Null Term // "" = never nil; otherwise a Bool term: this interior pointer is the nil pointer (phi of nil and &s[i])
}

// ---------------------------------------------------------------------------------------------
// State: versioned heap components

type State struct {
	comps map[string]Term
}

func (s *State) clone() *State {
	n := &State{comps: make(map[string]Term, len(s.comps))}
	for k, v := range s.comps {
		n.comps[k] = v
	}
	return n
}

// ---------------------------------------------------------------------------------------------
// Obligations

type Obligation struct {
	Name      string
	Kind      string
	Func      string
	Props     []string
	PC        Term
	Goal      Term
	ItemsLen  int
	Desc      string
	ExpectSat bool // cover check
	Pos       string
	Clause    string
}

// ---------------------------------------------------------------------------------------------
// Executor

type Exec struct {
	W         *World
	reg       *TypeReg
	items     []Item
	declared  map[string]bool
	compSort  map[string]string
	compInit  map[string]Term
	compOrder []string
	obls      []*Obligation
	nfresh    int
	discovery int // >0: obligations suppressed
	notes     map[string]bool
	assumes   map[string]bool // assumed external contracts used
	abstracted map[string]bool
	rootFn    *ssa.Function
	rootCtr   *FuncContract
	oblNames  map[string]int
	safetyOn  bool
	inlineStack []*ssa.Function
	modsMemo  map[*ssa.Function][]string
	modsBusy  map[*ssa.Function]bool
	trackCalled map[string]bool
	curPos    token.Pos
	siteSeq   map[string]int
	rootArgs  []Val
	rootEntry *State
	rootFrame *Frame
	rootBinders map[string]Val
	inQuant   int
	loopVisited map[int]string
	loopIters   map[int]string
	failSeq     int
	pendingFail []pendingFail // failstop: error results of fail-stop calls seen so far
	cloCells  map[string]*Closure
	wlog      []writeRec
	symAt     map[string]int
	recursive map[*ssa.Function]bool
	nonNilGlobals map[string][]Term
	globalSeen [][2]string
	boundCalls map[string]bool
	busyHits  int
	rootWrites []writeTarget
	symMu     sync.Mutex
	intQuants []intQuant
	idxTerms  []idxTerm
	instGen   int
	loopFresh map[string]bool
	loopPreAlloc Term
	compType  map[string]types.Type
	localNames map[string]Val
	localAddrs map[string]Val // address-taken locals: name -> address
	refValued map[string]string // map-value components holding references -> key sort
	pendingAlloc Term
	refValuedTag map[string]int
	contentOwner map[string]Term // content-map symbol -> the object it was obtained from
	accumOf   map[string]Term // accumulator phi symbol -> allocation counter at the start of its outermost loop
	funSigs   map[string]string
	idxSeen   map[string]bool
	boxOf     map[string]Term // defined Any symbol -> the reference it boxes
	boxType   map[string]types.Type
}

func newExec(w *World) *Exec {
	e := &Exec{W: w, reg: newTypeReg(), declared: map[string]bool{}, compSort: map[string]string{}, compInit: map[string]Term{},
		notes: map[string]bool{}, assumes: map[string]bool{}, abstracted: map[string]bool{}, oblNames: map[string]int{},
		boundCalls: map[string]bool{}, contentOwner: map[string]Term{}, accumOf: map[string]Term{}, localNames: map[string]Val{}, localAddrs: map[string]Val{}, boxOf: map[string]Term{}, boxType: map[string]types.Type{}, recursive: map[*ssa.Function]bool{}, symAt: map[string]int{}, modsMemo: map[*ssa.Function][]string{}, modsBusy: map[*ssa.Function]bool{}, trackCalled: map[string]bool{}, siteSeq: map[string]int{}}
	return e
}

func (e *Exec) fresh(prefix, sort string) Term {
	e.nfresh++
	name := fmt.Sprintf("%s!%d", cleanSym(prefix), e.nfresh)
	e.symAt[name] = len(e.items)
	e.items = append(e.items, Item{Kind: ItemDecl, Sym: name, Text: fmt.Sprintf("(declare-const %s %s)", name, sort)})
	return name
}

func cleanSym(s string) string {
	var b strings.Builder
	for _, c := range s {
		if (c >= 'a' && c <= 'z') || (c >= 'A' && c <= 'Z') || (c >= '0' && c <= '9') || c == '_' || c == '.' || c == '$' {
			b.WriteRune(c)
		} else {
			b.WriteByte('_')
		}
	}
	if b.Len() == 0 {
		return "x"
	}
	return b.String()
}

// define introduces a named abbreviation for term (keeps every term small).
func (e *Exec) define(prefix, sort string, term Term) Term {
	if isAtom(term) || e.inQuant > 0 {
		return term
	}
	e.nfresh++
	name := fmt.Sprintf("%s!%d", cleanSym(prefix), e.nfresh)
	e.symAt[name] = len(e.items)
	e.items = append(e.items, Item{Kind: ItemDef, Sym: name, Text: fmt.Sprintf("(define-fun %s () %s %s)", name, sort, term)})
	return name
}

func isAtom(t Term) bool {
	return !strings.ContainsAny(t, "( ")
}

func (e *Exec) declFun(name string, argSorts []string, res string) {
	sig := strings.Join(argSorts, " ") + " -> " + res
	if e.funSigs == nil {
		e.funSigs = map[string]string{}
	}
	if old, ok := e.funSigs[name]; ok && old != sig {
		panic(fmt.Sprintf("fatal: uninterpreted symbol %s used with two signatures: (%s) and (%s)", name, old, sig))
	}
	e.funSigs[name] = sig
	if e.declared[name] {
		return
	}
	e.declared[name] = true
	e.items = append(e.items, Item{Kind: ItemDecl, Sym: name, Text: fmt.Sprintf("(declare-fun %s (%s) %s)", name, strings.Join(argSorts, " "), res)})
}

func (e *Exec) assume(t Term, note string) {
	if t == "true" || e.inQuant > 0 {
		return
	}
	e.items = append(e.items, Item{Kind: ItemAssume, Text: fmt.Sprintf("(assert %s)", t), Note: note})
}

// Quantifiers over an integer index whose body reads slices at (offset + index) defeat E-matching
// (arithmetic under the trigger). The generator therefore instantiates them itself at every index
// term the program uses: for Q = (forall i. P(i)) the axiom (=> Q P(t)) is valid, and so is
// (=> P(t) Q) for Q = (exists i. P(i)); adding them is sound whatever the polarity of Q.
type intQuant struct {
	q       Term
	inst    func(t Term) Term
	forall  bool
	nested  bool // the body contains further quantifiers
	gen     int
	sort    string
}

type idxTerm struct {
	t    Term
	gen  int
	sort string
}

const maxInstGen = 2

func (e *Exec) registerIntQuant(q Term, inst func(t Term) Term, forall bool, nested bool) {
	e.registerQuant(q, inst, forall, nested, "Int")
}

// registerQuant: a named single-variable quantifier over `sort`, instantiated by the generator at the
// terms of that sort the program uses (slice indices for Int, map keys for other sorts).
func (e *Exec) registerQuant(q Term, inst func(t Term) Term, forall bool, nested bool, sort string) {
	if e.inQuant > 0 {
		return
	}
	iq := intQuant{q: q, inst: inst, forall: forall, nested: nested, gen: e.instGen, sort: sort}
	e.intQuants = append(e.intQuants, iq)
	if iq.gen >= maxInstGen {
		return
	}
	for _, t := range append([]idxTerm{}, e.idxTerms...) {
		e.instantiate(iq, t)
	}
	// witness constant: if an exists holds (a forall fails) it does so at sk — conservative, whatever the polarity
	sk := e.fresh("wit", sort)
	saved := e.instGen
	e.instGen = iq.gen + 1
	if forall {
		e.assumeKeyed(q, Implies(Not(q), Not(inst(sk))), "")
	} else {
		e.assumeKeyed(q, Implies(q, inst(sk)), "")
	}
	e.instGen = saved
	e.noteTermGen(sk, iq.gen+1, sort)
}

func (e *Exec) instantiate(iq intQuant, t idxTerm) {
	if iq.sort != t.sort {
		return
	}
	if iq.nested && (t.gen > 0 || iq.gen > 0) {
		return
	}
	saved := e.instGen
	g := iq.gen
	if t.gen > g {
		g = t.gen
	}
	e.instGen = g + 1
	inst := iq.inst(t.t)
	e.instGen = saved
	if iq.forall {
		e.assumeKeyed(iq.q, Implies(iq.q, inst), "")
	} else {
		e.assumeKeyed(iq.q, Implies(inst, iq.q), "")
	}
}

// noteIndexTerm: the program (or a contract) indexes a slice at t.
func (e *Exec) noteIndexTerm(t Term) { e.noteTermGen(t, 0, "Int") }

// noteKeyTerm: the program uses t (of the given sort) as a map key.
func (e *Exec) noteKeyTerm(t Term, sort string) {
	if sort == "Bool" {
		return
	}
	e.noteTermGen(t, 0, sort)
}

func (e *Exec) noteIndexTermGen(t Term, gen int) { e.noteTermGen(t, gen, "Int") }

func (e *Exec) noteTermGen(t Term, gen int, sort string) {
	key := sort + "|" + t
	if e.inQuant > 0 || e.idxSeen[key] {
		return
	}
	if e.idxSeen == nil {
		e.idxSeen = map[string]bool{}
	}
	e.idxSeen[key] = true
	it := idxTerm{t, gen, sort}
	e.idxTerms = append(e.idxTerms, it)
	for _, iq := range append([]intQuant{}, e.intQuants...) {
		if iq.gen < maxInstGen {
			e.instantiate(iq, it)
		}
	}
}

type snapshot struct {
	nitems, nobl, nlog, nq, nidx int
	nfresh                        int
	declared                      map[string]bool
	compInit                      map[string]Term
	idxSeen                       map[string]bool
}

func (e *Exec) snapshot() *snapshot {
	sn := &snapshot{nitems: len(e.items), nobl: len(e.obls), nlog: len(e.wlog), nq: len(e.intQuants), nidx: len(e.idxTerms),
		declared: map[string]bool{}, compInit: map[string]Term{}, idxSeen: map[string]bool{}, nfresh: e.nfresh}
	for k := range e.declared {
		sn.declared[k] = true
	}
	for k, v := range e.compInit {
		sn.compInit[k] = v
	}
	for k := range e.idxSeen {
		sn.idxSeen[k] = true
	}
	return sn
}

// rollback drops everything generated since the snapshot, but keeps components first seen since then
// registered (their initial versions are re-declared).
func (e *Exec) rollback(sn *snapshot) {
	newComps := map[string]Term{}
	for k, v := range e.compInit {
		if _, ok := sn.compInit[k]; !ok {
			newComps[k] = v
		}
	}
	e.items = e.items[:sn.nitems]
	// every symbol numbered since the snapshot is gone with the items: reuse the numbers, so that symbol
	// names do not depend on whether a callee summary was computed here or found in the shared memo
	if os.Getenv("GOVC_KEEP_COUNTER") == "" {
		e.nfresh = sn.nfresh
	}
	e.obls = e.obls[:sn.nobl]
	e.intQuants = e.intQuants[:sn.nq]
	e.idxTerms = e.idxTerms[:sn.nidx]
	e.idxSeen = sn.idxSeen
	e.declared = sn.declared
	for _, k := range sortedKeys(newComps) {
		init := newComps[k]
		e.symAt[init] = len(e.items)
		e.items = append(e.items, Item{Kind: ItemDecl, Sym: init, Text: fmt.Sprintf("(declare-const %s %s)", init, e.compSort[k])})
		// exactly the facts e.comp asserts for a first use outside a dry run
		savedPA, savedQ := e.pendingAlloc, e.inQuant
		if a, ok := e.compInit[allocComp]; ok {
			e.pendingAlloc = a
		}
		e.inQuant = 0
		e.initCompFacts(k, e.compSort[k], init)
		e.pendingAlloc, e.inQuant = savedPA, savedQ
	}
}

// assumeForallInt assumes (forall i. body(i)) and registers it for generator-side instantiation.
// guard (may be "true") is a condition under which the fact holds.
func (e *Exec) assumeForallInt(guard Term, body func(i Term) Term, pattern func(i Term) Term, note string) {
	e.nfresh++
	v := fmt.Sprintf("iq%d", e.nfresh)
	txt := body(v)
	if pattern != nil {
		txt = fmt.Sprintf("(! %s :pattern (%s))", txt, pattern(v))
	}
	q := e.define("Q", "Bool", fmt.Sprintf("(forall ((%s Int)) %s)", v, txt))
	e.assume(Implies(guard, q), note)
	e.registerIntQuant(q, func(t Term) Term { return body(t) }, true, false)
}

// assumeForallSort: like assumeForallInt for a variable of another sort (map keys).
func (e *Exec) assumeForallSort(sort string, body func(k Term) Term, pattern func(k Term) Term, note string) {
	e.nfresh++
	v := fmt.Sprintf("kq%d", e.nfresh)
	txt := body(v)
	if pattern != nil {
		txt = fmt.Sprintf("(! %s :pattern (%s))", txt, pattern(v))
	}
	q := e.define("Q", "Bool", fmt.Sprintf("(forall ((%s %s)) %s)", v, sort, txt))
	e.assume(q, note)
	e.registerQuant(q, func(t Term) Term { return body(t) }, true, false, sort)
}

// assumeKeyed: an assumption that is only useful for reasoning about symbol `key`.
func (e *Exec) assumeKeyed(key string, t Term, note string) {
	if t == "true" || e.inQuant > 0 {
		return
	}
	e.items = append(e.items, Item{Kind: ItemAssume, Text: fmt.Sprintf("(assert %s)", t), Note: note, Key: key})
}

func (e *Exec) note(s string) {
	if e.discovery == 0 {
		e.notes[s] = true
	}
}

// component access -----------------------------------------------------------------------------

func (e *Exec) comp(s *State, name, sort string) Term {
	if t, ok := s.comps[name]; ok {
		return t
	}
	if t, ok := e.compInit[name]; ok {
		return t
	}
	e.compSort[name] = sort
	e.compOrder = append(e.compOrder, name)
	init := name + "!0"
	// declared at the very beginning conceptually; put decl item now (declaration order is irrelevant for consts)
	e.items = append(e.items, Item{Kind: ItemDecl, Sym: init, Text: fmt.Sprintf("(declare-const %s %s)", init, sort)})
	e.compInit[name] = init
	saved := e.pendingAlloc
	if a, ok := e.compInit[allocComp]; ok {
		e.pendingAlloc = a
	}
	// closed facts about the new symbol: asserted even when the component is first met under a quantifier
	savedQ := e.inQuant
	e.inQuant = 0
	e.initCompFacts(name, sort, init)
	e.inQuant = savedQ
	e.pendingAlloc = saved
	return init
}

// facts that hold for every version of a component obtained by havoc/initialisation
func (e *Exec) initCompFacts(name, sort string, sym Term) {
	n0 := len(e.items)
	defer func() {
		if strings.HasSuffix(sym, "!0") {
			for i := n0; i < len(e.items); i++ {
				e.items[i].Init = true
			}
		}
	}()
	for _, g := range e.nonNilGlobals[name] {
		e.assume(Not(Eq(Select(sym, g), "0")), "global initialised once to a non-nil value (checked on the SSA program)")
	}
	if strings.HasPrefix(name, "MD_") {
		// the nil map is empty
		e.assumeKeyed(sym, Eq(Select(sym, "0"), fmt.Sprintf("((as const %s) false)", elemSortOfArray(sort))), "nil map is empty")
	}
	if strings.HasPrefix(name, "ML_") {
		e.assumeKeyed(sym, Eq(Select(sym, "0"), "0"), "nil map has length 0")
	}
	if strings.HasPrefix(name, "MV_") {
		// canonical values: the nil map reads as the zero value everywhere
		inner := elemSortOfArray(sort) // (Array K V)
		if i := strings.LastIndex(inner, " "); i > 0 {
			vs := strings.TrimSuffix(inner[i+1:], ")")
			switch vs {
			case "Bool", "Int", "Real", "String", "Any", "Slice":
				e.assumeKeyed(sym, Eq(Select(sym, "0"), fmt.Sprintf("((as const %s) %s)", inner, zeroOfSort(vs))), "nil map reads as zero values")
			}
		}
	}
	if rv, ok := refValuedG.Load(name); ok && e.pendingAlloc != "" {
		ks, tag := rv.(refValuedInfo).ks, rv.(refValuedInfo).tag
		e.reg.useSort(ks)
		// every reference stored in a map is an allocated one
		e.declFun("rtype", []string{"Int"}, "Int")
		e.assumeKeyed(sym, fmt.Sprintf("(forall ((rq Int) (kq %s)) (! (and (<= (select (select %s rq) kq) %s) (or (= (select (select %s rq) kq) 0) (= (rtype (select (select %s rq) kq)) %d))) :pattern ((select (select %s rq) kq))))", ks, sym, e.pendingAlloc, sym, sym, tag, sym), "references stored in maps are allocated and typed")
	}
}

func elemSortOfArray(sort string) string {
	// sort is "(Array Int X)"; return X
	s := strings.TrimPrefix(sort, "(Array Int ")
	return strings.TrimSuffix(s, ")")
}

func (e *Exec) setComp(s *State, name, sort string, term Term) {
	if _, ok := e.compSort[name]; !ok {
		e.comp(s, name, sort)
	}
	cur := e.comp(s, name, sort)
	if ref, ok := storeRef(term, cur); ok {
		e.wlog = append(e.wlog, writeRec{name, ref})
	} else {
		e.wlog = append(e.wlog, writeRec{name, ""})
	}
	s.comps[name] = e.define(name, sort, term)
}

func pathKey(p []int) string {
	var parts []string
	for _, i := range p {
		parts = append(parts, fmt.Sprint(i))
	}
	return strings.Join(parts, ".")
}

func parsePathKey(s string) []int {
	var out []int
	for _, p := range strings.Split(s, ".") {
		n := 0
		fmt.Sscan(p, &n)
		out = append(out, n)
	}
	return out
}

// setCompRefs: like setComp, for updates that write the cells `refs` (logged explicitly).
func (e *Exec) setCompRefs(s *State, name, sort string, term Term, refs ...Term) {
	if _, ok := e.compSort[name]; !ok {
		e.comp(s, name, sort)
	}
	for _, r := range refs {
		e.wlog = append(e.wlog, writeRec{name, r})
	}
	s.comps[name] = e.define(name, sort, term)
}

type writeRec struct {
	comp string
	ref  Term // "" = whole component
}

// storeRef recognises "(store <cur> <ref> <val>)" and returns <ref>.
func storeRef(term, cur Term) (Term, bool) {
	prefix := "(store " + cur + " "
	if !strings.HasPrefix(term, prefix) {
		return "", false
	}
	rest := term[len(prefix):]
	// first balanced token of rest
	d := 0
	for i := 0; i < len(rest); i++ {
		switch rest[i] {
		case '(':
			d++
		case ')':
			d--
			if d == 0 {
				return rest[:i+1], true
			}
			if d < 0 {
				return "", false
			}
		case ' ':
			if d == 0 {
				return rest[:i], true
			}
		}
	}
	return "", false
}

// modSet: component -> set of cell references written ("" = the whole component)
type modSet map[string]map[string]bool

func (m modSet) add(comp, ref string) {
	if m[comp] == nil {
		m[comp] = map[string]bool{}
	}
	m[comp][ref] = true
}

// stableRef: the term is an atom that existed before item index `limit` (or a literal).
func (e *Exec) stableRef(ref Term, limit int) bool {
	if ref == "" || !isAtom(ref) {
		return false
	}
	if idx, ok := e.symAt[ref]; ok {
		return idx < limit
	}
	// integer literal
	for _, c := range ref {
		if c < '0' || c > '9' {
			return false
		}
	}
	return true
}

// refineMods: from the components that changed and the write log since `logStart`,
// compute which components must be havocked entirely and which only at known cells.
func (e *Exec) refineMods(changed map[string]bool, logStart, limit int) modSet {
	ms := modSet{}
	logged := map[string]bool{}
	for _, w := range e.wlog[logStart:] {
		if !changed[w.comp] {
			continue
		}
		logged[w.comp] = true
		wref, wpath := w.ref, ""
		if i := strings.Index(w.ref, "#"); i >= 0 {
			wref, wpath = w.ref[:i], w.ref[i:]
		}
		if w.ref == "" {
			ms.add(w.comp, "")
		} else if w.ref == "@fresh" {
			if ms[w.comp] == nil {
				ms[w.comp] = map[string]bool{}
			}
		} else if e.stableRef(wref, limit) {
			ms.add(w.comp, wref+wpath)
		} else if e.freshDuring(wref, limit) {
			// a cell allocated during the region: invisible to the surrounding context
			if ms[w.comp] == nil {
				ms[w.comp] = map[string]bool{}
			}
		} else if e.loopFresh[wref] {
			// backing array of an accumulator slice: allocated inside the loop (checked invariant)
			ms.add(w.comp, "@loopfresh")
		} else {
			ms.add(w.comp, "")
		}
	}
	for c := range changed {
		if !logged[c] {
			ms.add(c, "")
		}
	}
	return ms
}

// freshDuring: ref is a reference allocated after item index `limit` (name starts with "ref_").
func (e *Exec) freshDuring(ref Term, limit int) bool {
	if !isAtom(ref) || !strings.HasPrefix(ref, "ref_") {
		return false
	}
	idx, ok := e.symAt[ref]
	return ok && idx >= limit
}

// applyHavoc havocs the modified components/cells in s.
func (e *Exec) applyHavoc(s *State, ms modSet) {
	if _, ok := ms[allocComp]; ok {
		old := e.allocCtr(s)
		e.havocComp(s, allocComp)
		e.assume(app(">=", s.comps[allocComp], old), "")
	}
	savedPA := e.pendingAlloc
	e.pendingAlloc = e.allocCtr(s)
	defer func() { e.pendingAlloc = savedPA }()
	for _, m := range sortedKeys(ms) {
		if m == allocComp {
			continue
		}
		refs := ms[m]
		if refs[""] || !strings.HasPrefix(e.compSort[m], "(Array Int ") {
			e.havocComp(s, m)
			continue
		}
		if refs["@loopfresh"] {
			// everything allocated before the loop keeps its value, except the known cells
			so := e.compSort[m]
			old := e.comp(s, m, so)
			e.havocComp(s, m)
			nw := s.comps[m]
			cond := []Term{app("<=", "rq", e.loopPreAlloc)}
			for r := range refs {
				if r != "@loopfresh" {
					if i := strings.Index(r, "#"); i >= 0 {
						r = r[:i]
					}
					cond = append(cond, Not(Eq("rq", r)))
				}
			}
			e.assumeKeyed(nw, fmt.Sprintf("(forall ((rq Int)) (! (=> %s (= (select %s rq) (select %s rq))) :pattern ((select %s rq))))", And(cond...), nw, old, nw), "loop frame: only memory allocated inside the loop is written")
			continue
		}
		if len(refs) == 0 {
			continue
		}
		so := e.compSort[m]
		cur := e.comp(s, m, so)
		t := cur
		whole := map[string]bool{}
		for r := range refs {
			if !strings.Contains(r, "#") {
				whole[r] = true
			}
		}
		for _, r := range sortedKeys(refs) {
			if i := strings.Index(r, "#"); i >= 0 {
				ref := r[:i]
				root := e.compType[m]
				if whole[ref] || root == nil {
					if !whole[ref] {
						whole[ref] = true
						t = Store(t, ref, e.fresh(m+"_cell", elemSortOfArray(so)))
					}
					continue
				}
				path := parsePathKey(r[i+1:])
				ft := e.typeAtPath(root, path)
				t = Store(t, ref, e.updPath(root, Select(t, ref), path, e.fresh(m+"_fld", e.reg.sortOf(ft))))
				continue
			}
			t = Store(t, r, e.fresh(m+"_cell", elemSortOfArray(so)))
		}
		sym := e.define(m, so, t)
		s.comps[m] = sym
		if strings.HasPrefix(m, "MD_") || strings.HasPrefix(m, "ML_") {
			// the nil map stays empty (writes to it panic)
			e.initCompFacts(m, so, sym)
		}
	}
}

func (e *Exec) havocComp(s *State, name string) {
	if os.Getenv("GOVC_DEBUG") == "2" && e.discovery == 0 {
		fmt.Fprintf(os.Stderr, "DEBUG havocComp %s\n%s\n", name, debugStack())
	}
	e.wlog = append(e.wlog, writeRec{name, ""})
	sort := e.compSort[name]
	old, hadOld := s.comps[name]
	sym := e.fresh(name+"!h", sort)
	s.comps[name] = sym
	e.initCompFacts(name, sort, sym)
	if name == "CLOSED" && hadOld {
		// a closed channel stays closed: the ghost set only grows
		e.assumeKeyed(sym, fmt.Sprintf("(forall ((rq Int)) (! (=> (select %s rq) (select %s rq)) :pattern ((select %s rq))))", old, sym, sym), "closed channels stay closed")
	}
}

const allocComp = "ALLOC"

func (e *Exec) allocCtr(s *State) Term { return e.comp(s, allocComp, "Int") }

// freshRef allocates a new reference.
func (e *Exec) freshRef(s *State, hint string) Term {
	a := e.allocCtr(s)
	r := e.fresh("ref_"+hint, "Int")
	e.assume(app(">", r, a), "")
	if _, ok := e.compSort["CACHED"]; ok {
		e.assume(Not(Select(e.comp(s, "CACHED", "(Array Int Bool)"), r)), "fresh allocations are not in an informer cache")
	}
	s.comps[allocComp] = r
	return r
}

// Heap components are separated by Go type: differently typed pointers, maps and slices cannot alias.
func (e *Exec) heapName(t types.Type) (string, string) {
	so := e.reg.sortOf(t)
	return "H_" + e.reg.typeId(t), "(Array Int " + so + ")"
}
func (e *Exec) arrName(t types.Type) (string, string) {
	so := e.reg.sortOf(t)
	return "Arr_" + e.reg.typeId(t), "(Array Int (Array Int " + so + "))"
}
func (e *Exec) mapNames(m *types.Map) (dn, ds, vn, vs string) {
	k := e.reg.sortOf(m.Key())
	v := e.reg.sortOf(m.Elem())
	suffix := e.reg.typeId(m.Key()) + "_" + e.reg.typeId(m.Elem())
	if isRefLike(m.Elem()) {
		if _, isSig := unalias(m.Elem()).Underlying().(*types.Signature); !isSig {
			// process-wide: a component first met through a memoised callee summary gets the same facts
			refValuedG.Store("MV_"+suffix, refValuedInfo{k, e.reg.tagOf(unalias(m.Elem()))})
		}
	}
	return "MD_" + suffix, "(Array Int (Array " + k + " Bool))", "MV_" + suffix, "(Array Int (Array " + k + " " + v + "))"
}
type refValuedInfo struct {
	ks  string
	tag int
}

var refValuedG sync.Map // map-value components holding references -> key sort and element type tag

func (e *Exec) mapLenName(m *types.Map) (string, string) {
	return "ML_" + e.reg.typeId(m.Key()) + "_" + e.reg.typeId(m.Elem()), "(Array Int Int)"
}

// ---------------------------------------------------------------------------------------------
// Addresses, loads and stores

func (e *Exec) addrOf(v Val) *Addr {
	if v.Addr != nil {
		return v.Addr
	}
	el := deref(v.T)
	if el == nil {
		panic(fmt.Sprintf("addrOf: not a pointer: %v", v.T))
	}
	if arr, ok := unalias(el).Underlying().(*types.Array); ok {
		// pointer to array: the reference is an array base
		_ = arr
		return &Addr{Kind: addrHeap, Root: el, Ref: v.Term}
	}
	return &Addr{Kind: addrHeap, Root: el, Ref: v.Term}
}

func (e *Exec) typeAtPath(root types.Type, path []int) types.Type {
	t := root
	for _, i := range path {
		t = unalias(t).Underlying().(*types.Struct).Field(i).Type()
	}
	return t
}

func (e *Exec) cellTerm(s *State, a *Addr) Term {
	switch a.Kind {
	case addrHeap:
		n, so := e.heapName(a.Root)
		return Select(e.comp(s, n, so), a.Ref)
	default:
		n, so := e.arrName(a.Root)
		return Select(Select(e.comp(s, n, so), a.Ref), a.Idx)
	}
}

func (e *Exec) load(s *State, a *Addr) Val {
	cell := e.cellTerm(s, a)
	t := a.Root
	for _, i := range a.Path {
		si := e.reg.structOf(t)
		cell = app(si.fields[i], cell)
		t = si.st.Field(i).Type()
	}
	v := Val{T: t, Term: cell}
	e.refBound(s, v)
	return v
}

// refTyped: references to cells of different Go types are different (unless nil).
func (e *Exec) refTyped(v Val) {
	if e.inQuant > 0 || v.Term == "" || v.Addr != nil {
		return
	}
	switch unalias(v.T).Underlying().(type) {
	case *types.Pointer, *types.Map, *types.Chan:
	default:
		return
	}
	if !isAtom(v.Term) && len(v.Term) > 200 {
		return
	}
	e.declFun("rtype", []string{"Int"}, "Int")
	e.assume(Or(Eq(v.Term, "0"), Eq(app("rtype", v.Term), IntLit(int64(e.reg.tagOf(unalias(v.T)))))), "")
}

// refBound: any reference read from the heap is an allocated one.
func (e *Exec) refBound(s *State, v Val) {
	e.refTyped(v)
	if _, ok := s.comps[allocComp]; !ok {
		if _, ok2 := e.compInit[allocComp]; !ok2 {
			return
		}
	}
	if isRefLike(v.T) {
		if _, isSig := unalias(v.T).Underlying().(*types.Signature); isSig {
			return
		}
		e.assume(app("<=", v.Term, e.allocCtr(s)), "")
	} else if _, ok := unalias(v.T).Underlying().(*types.Slice); ok {
		e.assume(And(app("<=", app("s_base", v.Term), e.allocCtr(s)), app(">=", app("s_base", v.Term), "0"), app(">=", app("s_len", v.Term), "0"),
			app(">=", app("s_off", v.Term), "0"), app(">=", app("s_cap", v.Term), app("s_len", v.Term))), "")
	}
}

func (e *Exec) updPath(t types.Type, cell Term, path []int, v Term) Term {
	if len(path) == 0 {
		return v
	}
	si := e.reg.structOf(t)
	args := make([]Term, len(si.fields))
	for i := range si.fields {
		if i == path[0] {
			args[i] = e.updPath(si.st.Field(i).Type(), app(si.fields[i], cell), path[1:], v)
		} else {
			args[i] = app(si.fields[i], cell)
		}
	}
	return app(si.ctor, args...)
}

func (e *Exec) store(s *State, a *Addr, v Term) {
	switch a.Kind {
	case addrHeap:
		n, so := e.heapName(a.Root)
		h := e.comp(s, n, so)
		nc := e.updPath(a.Root, Select(h, a.Ref), a.Path, v)
		if len(a.Path) > 0 {
			if e.compType == nil {
				e.compType = map[string]types.Type{}
			}
			e.compType[n] = a.Root
			e.setCompRefs(s, n, so, Store(h, a.Ref, nc), a.Ref+"#"+pathKey(a.Path))
		} else {
			e.setComp(s, n, so, Store(h, a.Ref, nc))
		}
	default:
		n, so := e.arrName(a.Root)
		h := e.comp(s, n, so)
		row := Select(h, a.Ref)
		nc := e.updPath(a.Root, Select(row, a.Idx), a.Path, v)
		e.setComp(s, n, so, Store(h, a.Ref, Store(row, a.Idx, nc)))
	}
}

// ---------------------------------------------------------------------------------------------
// Frames

type Frame struct {
	fn      *ssa.Function
	vals    map[ssa.Value]Val
	reach   map[*ssa.BasicBlock]Term
	exit    map[*ssa.BasicBlock]*State
	edge    map[[2]int]Term // edge condition (from,to) relative to reach[from]
	prefix  string
	rets    []retInfo
	defers  []deferInfo
	loops   map[*ssa.BasicBlock]*loopInfo // header -> loop
	inLoop  map[*ssa.BasicBlock][]*loopInfo
	ctr     *FuncContract // contract of this function if it is the root
	entry   *State
	args    []Val
	depth   int
	rangeOf map[ssa.Value]rangeInfo // Range instr -> info
	loopIdx map[*ssa.BasicBlock]int
	binders map[string]Val // contract binder name -> value (loop binders)
	done    map[*ssa.BasicBlock]bool
	rpo     []*ssa.BasicBlock
}

type pendingFail struct {
	record *RecordFailSpec // nil: fail-stop; else: the failure must be recorded in an accumulator
	site  string
	props []string
	err   Term // the error result (sort Any)
	reach Term
	block *ssa.BasicBlock
}

type retInfo struct {
	reach Term
	vals  []Val
	state *State
	block *ssa.BasicBlock
}

type deferInfo struct {
	reach Term
	call  *ssa.Defer
}

type rangeInfo struct {
	x     Val
	isMap bool
	dom0  Term // key set of the map when the iteration started
	len0  Term // len of the map when the iteration started
}

type loopInfo struct {
	header  *ssa.BasicBlock
	blocks  map[*ssa.BasicBlock]bool
	latches []*ssa.BasicBlock
	ordinal int // 1-based in source order
	parent  *loopInfo
	// established while processing
	phiSyms map[*ssa.Phi]Val
	headerState *State
	preState *State
	accum   []*ssa.Phi
	accumPre map[*ssa.Phi]Term
	reach   Term
	preAlloc Term
}

func (e *Exec) accumInvAt(s Term, pre Term) Term {
	return Or(app(">", app("s_base", s), pre), And(Eq(app("s_cap", s), "0"), Eq(app("s_base", s), "0")))
}

func (e *Exec) val(f *Frame, v ssa.Value) Val {
	switch c := v.(type) {
	case *ssa.Const:
		return e.constVal(c)
	case *ssa.Global:
		return e.globalVal(c)
	case *ssa.Function:
		return Val{T: c.Type(), Term: e.funcId(c), Clo: &Closure{Fn: c}}
	case *ssa.Builtin:
		return Val{T: c.Type(), Term: "0"}
	}
	if x, ok := f.vals[v]; ok {
		return x
	}
	// value defined in an enclosing function (free variable) is handled through bindings
	panic(fmt.Sprintf("no value for %s (%T) in %s", v.Name(), v, f.fn))
}

func (e *Exec) funcId(fn *ssa.Function) Term {
	name := "fn_" + cleanSym(fn.String())
	if !e.declared[name] {
		e.declared[name] = true
		e.items = append(e.items, Item{Kind: ItemDecl, Sym: name, Text: fmt.Sprintf("(declare-const %s Int)", name)})
		e.assume(app("<", name, "0"), "")
	}
	return name
}

// globalConst: the (constant) value of a package-level variable that is initialised once.
func (e *Exec) globalConst(g *ssa.Global) (Term, bool) {
	if g.Pkg == nil || !globalNonNil[g.Pkg.Pkg.Path()+"."+g.Name()] {
		return "", false
	}
	name := "gv_" + cleanSym(g.Pkg.Pkg.Name()+"."+g.Name())
	if !e.declared[name] {
		e.declared[name] = true
		e.symAt[name] = len(e.items)
		so := e.reg.sortOf(deref(g.Type()))
		e.items = append(e.items, Item{Kind: ItemDecl, Sym: name, Text: fmt.Sprintf("(declare-const %s %s)", name, so)})
		_, isFunc := unalias(deref(g.Type())).Underlying().(*types.Signature)
		switch {
		case isFunc:
			e.assume(Not(Eq(name, "0")), "global function variable initialised once to a function (checked on the SSA program)")
		case so == "Int":
			e.assume(And(app(">", name, "0"), app("<=", name, e.compInit[allocComp])), "global initialised once to a non-nil value (checked on the SSA program)")
		case so == "Any":
			e.assume(And(Not(Eq(name, "nil_any")), Implies(app("(_ is box_ref)", name), And(app(">", app("ref", name), "0"), app("<=", app("ref", name), e.compInit[allocComp])))), "global initialised once to a non-nil value")
		}
	}
	return name, true
}

func (e *Exec) globalVal(g *ssa.Global) Val {
	name := "glob_" + cleanSym(g.Pkg.Pkg.Name()+"."+g.Name())
	if !e.declared[name] {
		e.declared[name] = true
		e.items = append(e.items, Item{Kind: ItemDecl, Sym: name, Text: fmt.Sprintf("(declare-const %s Int)", name)})
		// globals live at distinct negative addresses
		id := len(e.declared)
		e.assume(Eq(name, IntLit(int64(-1000-id))), "")
		if globalNonNil[g.Pkg.Pkg.Path()+"."+g.Name()] {
			cn, cs := e.heapName(deref(g.Type()))
			if e.nonNilGlobals == nil {
				e.nonNilGlobals = map[string][]Term{}
			}
			e.nonNilGlobals[cn] = append(e.nonNilGlobals[cn], name)
			// facts for every version of the component that already exists
			if init, ok := e.compInit[cn]; ok {
				e.assume(Not(Eq(Select(init, name), "0")), "global initialised once to a non-nil value")
			} else {
				_ = cs
			}
			e.globalSeen = append(e.globalSeen, [2]string{cn, name})
		}
	}
	return Val{T: g.Type(), Term: name}
}

func (e *Exec) constVal(c *ssa.Const) Val {
	t := c.Type()
	if c.Value == nil {
		// zero value / nil
		if b, ok := unalias(t).Underlying().(*types.Basic); ok && b.Kind() == types.UntypedNil {
			return Val{T: t, Term: "0"}
		}
		return Val{T: t, Term: e.reg.zero(t)}
	}
	switch e.reg.sortOf(t) {
	case "Bool":
		if constant.BoolVal(c.Value) {
			return Val{T: t, Term: "true"}
		}
		return Val{T: t, Term: "false"}
	case "String":
		return Val{T: t, Term: StrLit(constant.StringVal(c.Value))}
	case "Int":
		if i, ok := constant.Int64Val(constant.ToInt(c.Value)); ok {
			return Val{T: t, Term: IntLit(i)}
		}
		if u, ok := constant.Uint64Val(constant.ToInt(c.Value)); ok {
			return Val{T: t, Term: fmt.Sprintf("%d", u)}
		}
		return Val{T: t, Term: e.fresh("bigconst", "Int")}
	case "Real":
		f, _ := constant.Float64Val(c.Value)
		s := fmt.Sprintf("%f", f)
		if f < 0 {
			s = fmt.Sprintf("(- %f)", -f)
		}
		return Val{T: t, Term: s}
	}
	return Val{T: t, Term: e.fresh("const", e.reg.sortOf(t))}
}

// ---------------------------------------------------------------------------------------------
// CFG analysis

func analyzeLoops(fn *ssa.Function) (map[*ssa.BasicBlock]*loopInfo, []*ssa.BasicBlock, error) {
	loops := map[*ssa.BasicBlock]*loopInfo{}
	// back edges: u->h with h dominating u
	for _, b := range fn.Blocks {
		for _, s := range b.Succs {
			if s.Dominates(b) {
				li := loops[s]
				if li == nil {
					li = &loopInfo{header: s, blocks: map[*ssa.BasicBlock]bool{s: true}}
					loops[s] = li
				}
				li.latches = append(li.latches, b)
				// natural loop body
				stack := []*ssa.BasicBlock{b}
				for len(stack) > 0 {
					x := stack[len(stack)-1]
					stack = stack[:len(stack)-1]
					if li.blocks[x] {
						continue
					}
					li.blocks[x] = true
					for _, p := range x.Preds {
						stack = append(stack, p)
					}
				}
			}
		}
	}
	// ordinals by header block index (source order)
	var hs []*ssa.BasicBlock
	for h := range loops {
		hs = append(hs, h)
	}
	sort.Slice(hs, func(i, j int) bool { return hs[i].Index < hs[j].Index })
	for i, h := range hs {
		loops[h].ordinal = i + 1
	}
	// reverse postorder ignoring back edges
	var rpo []*ssa.BasicBlock
	seen := map[*ssa.BasicBlock]bool{}
	var dfs func(b *ssa.BasicBlock)
	dfs = func(b *ssa.BasicBlock) {
		seen[b] = true
		for i := len(b.Succs) - 1; i >= 0; i-- {
			s := b.Succs[i]
			if seen[s] || s.Dominates(b) {
				continue
			}
			dfs(s)
		}
		rpo = append(rpo, b)
	}
	if len(fn.Blocks) > 0 {
		dfs(fn.Blocks[0])
	}
	for i, j := 0, len(rpo)-1; i < j; i, j = i+1, j-1 {
		rpo[i], rpo[j] = rpo[j], rpo[i]
	}
	// reducibility check: every retreating edge must be a back edge (target dominates source)
	pos := map[*ssa.BasicBlock]int{}
	for i, b := range rpo {
		pos[b] = i
	}
	for _, b := range rpo {
		for _, s := range b.Succs {
			if pos[s] <= pos[b] && !s.Dominates(b) {
				return nil, nil, fmt.Errorf("irreducible control flow in %s", fn)
			}
		}
	}
	return loops, rpo, nil
}

// ---------------------------------------------------------------------------------------------
// Running a function body

type runResult struct {
	rets  []Val  // merged results
	state *State // merged exit state
	reach Term   // condition under which the function returns normally
}

// runBody executes fn from `entry` with the given argument values (params then free vars).
func (e *Exec) runBody(fn *ssa.Function, args []Val, bindings []Val, entry *State, entryReach Term, ctr *FuncContract, depth int) (*Frame, runResult) {
	loops, rpo, err := analyzeLoops(fn)
	f := &Frame{fn: fn, vals: map[ssa.Value]Val{}, reach: map[*ssa.BasicBlock]Term{}, exit: map[*ssa.BasicBlock]*State{},
		edge: map[[2]int]Term{}, loops: loops, ctr: ctr, entry: entry, depth: depth, rangeOf: map[ssa.Value]rangeInfo{},
		binders: map[string]Val{}, done: map[*ssa.BasicBlock]bool{}, rpo: rpo, args: args}
	e.nfresh++
	f.prefix = fmt.Sprintf("f%d_", e.nfresh)
	if err != nil {
		e.abstracted[fn.String()] = true
		e.note("unsupported: " + err.Error())
		return f, e.havocResult(fn, entry, entryReach)
	}
	for i, p := range fn.Params {
		if i < len(args) {
			f.vals[p] = args[i]
		}
	}
	for i, fv := range fn.FreeVars {
		if i < len(bindings) {
			f.vals[fv] = bindings[i]
		}
	}
	e.runBlocks(f, rpo, fn.Blocks[0], entry, entryReach)
	return f, e.mergeReturns(f, fn)
}

func (e *Exec) havocResult(fn *ssa.Function, s *State, reach Term) runResult {
	res := fn.Signature.Results()
	var vals []Val
	for i := 0; i < res.Len(); i++ {
		vals = append(vals, Val{T: res.At(i).Type(), Term: e.fresh("havoc_res", e.reg.sortOf(res.At(i).Type()))})
	}
	return runResult{rets: vals, state: s.clone(), reach: reach}
}

func (e *Exec) mergeReturns(f *Frame, fn *ssa.Function) runResult {
	if len(f.rets) == 0 {
		return runResult{state: f.entry.clone(), reach: "false"}
	}
	var reaches []Term
	var states []*State
	for _, r := range f.rets {
		reaches = append(reaches, r.reach)
		states = append(states, r.state)
	}
	out := runResult{reach: e.define(f.prefix+"ret", "Bool", Or(reaches...))}
	out.state = e.mergeStates(states, reaches)
	n := len(f.rets[0].vals)
	for i := 0; i < n; i++ {
		var vs []Val
		for _, r := range f.rets {
			vs = append(vs, r.vals[i])
		}
		out.rets = append(out.rets, e.mergeVals(vs, reaches, f.prefix+"res"))
	}
	return out
}

func (e *Exec) mergeStates(states []*State, conds []Term) *State {
	if len(states) == 1 {
		return states[0].clone()
	}
	out := &State{comps: map[string]Term{}}
	names := map[string]bool{}
	for _, s := range states {
		for k := range s.comps {
			names[k] = true
		}
	}
	for _, k := range sortedKeys(names) {
		var t Term
		for i := len(states) - 1; i >= 0; i-- {
			v, ok := states[i].comps[k]
			if !ok {
				v = e.compInit[k]
			}
			if i == len(states)-1 {
				t = v
			} else {
				t = Ite(conds[i], v, t)
			}
		}
		out.comps[k] = e.define(k, e.compSort[k], t)
	}
	return out
}

func (e *Exec) mergeVals(vs []Val, conds []Term, hint string) Val {
	if len(vs) == 1 {
		return vs[0]
	}
	v0 := vs[0]
	if len(v0.Tup) > 0 {
		out := Val{T: v0.T}
		for i := range v0.Tup {
			var xs []Val
			for _, v := range vs {
				xs = append(xs, v.Tup[i])
			}
			out.Tup = append(out.Tup, e.mergeVals(xs, conds, hint))
		}
		return out
	}
	// interior addresses: merge componentwise if same shape
	allAddr := true
	var someAddr *Addr
	for _, v := range vs {
		if v.Addr != nil && someAddr == nil && (v.Addr.Kind == addrArr || len(v.Addr.Path) > 0) {
			someAddr = v.Addr
		}
	}
	if someAddr != nil {
		// `var p *T; ... p = &s[i]`: the nil constant joins the merge as a null interior pointer of the same shape
		cp := make([]Val, len(vs))
		copy(cp, vs)
		for i, v := range cp {
			if v.Addr == nil && v.Term == "0" && len(v.Tup) == 0 {
				cp[i] = Val{T: v.T, Term: "0", Addr: &Addr{Kind: someAddr.Kind, Root: someAddr.Root, Ref: "0", Idx: "0", Path: someAddr.Path, Null: "true"}}
			}
		}
		vs = cp
		v0 = vs[0]
	}
	for _, v := range vs {
		if v.Addr == nil {
			allAddr = false
		}
	}
	if allAddr {
		a0 := vs[0].Addr
		same := true
		for _, v := range vs[1:] {
			if v.Addr.Kind != a0.Kind || !types.Identical(v.Addr.Root, a0.Root) || fmt.Sprint(v.Addr.Path) != fmt.Sprint(a0.Path) {
				same = false
			}
		}
		if same {
			na := &Addr{Kind: a0.Kind, Root: a0.Root, Path: a0.Path}
			var refs, idxs Term
			for i := len(vs) - 1; i >= 0; i-- {
				if i == len(vs)-1 {
					refs, idxs = vs[i].Addr.Ref, vs[i].Addr.Idx
				} else {
					refs = Ite(conds[i], vs[i].Addr.Ref, refs)
					if a0.Kind == addrArr {
						idxs = Ite(conds[i], vs[i].Addr.Idx, idxs)
					}
				}
			}
			na.Ref = e.define(hint, "Int", refs)
			if a0.Kind == addrArr {
				na.Idx = e.define(hint, "Int", idxs)
			}
			anyNull := false
			for _, v := range vs {
				if v.Addr.Null != "" {
					anyNull = true
				}
			}
			if anyNull {
				nl := func(a *Addr) Term {
					if a.Null == "" {
						return "false"
					}
					return a.Null
				}
				var nulls Term
				for i := len(vs) - 1; i >= 0; i-- {
					if i == len(vs)-1 {
						nulls = nl(vs[i].Addr)
					} else {
						nulls = Ite(conds[i], nl(vs[i].Addr), nulls)
					}
				}
				na.Null = e.define(hint, "Bool", nulls)
			}
			return Val{T: v0.T, Addr: na, Term: na.Ref}
		}
	}
	var t Term
	var clo *Closure
	sameClo := true
	for i := len(vs) - 1; i >= 0; i-- {
		term := e.asTerm(vs[i])
		if i == len(vs)-1 {
			t = term
			clo = vs[i].Clo
		} else {
			t = Ite(conds[i], term, t)
			if vs[i].Clo == nil || clo == nil || vs[i].Clo.Fn != clo.Fn {
				sameClo = false
			}
		}
	}
	out := Val{T: v0.T, Term: e.define(hint, e.reg.sortOf(v0.T), t)}
	if sameClo && clo != nil && len(clo.Bindings) == 0 {
		out.Clo = clo
	}
	return out
}

// asTerm turns a value into a first-class SMT term (interior pointers with a path cannot be).
func (e *Exec) asTerm(v Val) Term {
	if v.Addr != nil && (len(v.Addr.Path) > 0 || v.Addr.Kind == addrArr) {
		e.note("interior pointer escapes; abstracted as an opaque reference")
		return e.fresh("interior_ptr", "Int")
	}
	if v.Addr != nil {
		return v.Addr.Ref
	}
	if v.Term == "" {
		if len(v.Tup) > 0 {
			return "0"
		}
		panic("asTerm: empty term")
	}
	return v.Term
}

// runBlocks processes the blocks of `order` (an RPO without back edges) starting at `start`.
func (e *Exec) runBlocks(f *Frame, order []*ssa.BasicBlock, start *ssa.BasicBlock, entry *State, entryReach Term) {
	for _, b := range order {
		if f.done[b] {
			continue
		}
		var st *State
		var reach Term
		if b == start {
			st = entry.clone()
			reach = entryReach
			if li := f.loops[b]; li != nil {
				// function entry block is a loop header: not produced by go/ssa
				e.note("loop header at entry")
			}
		} else {
			var conds []Term
			var states []*State
			var preds []*ssa.BasicBlock
			for _, p := range b.Preds {
				if b.Dominates(p) { // back edge
					continue
				}
				if !f.done[p] {
					continue
				}
				c, ok := f.edge[[2]int{p.Index, b.Index}]
				if !ok {
					continue
				}
				conds = append(conds, c)
				states = append(states, f.exit[p])
				preds = append(preds, p)
			}
			if len(conds) == 0 {
				// unreachable block
				f.done[b] = true
				f.reach[b] = "false"
				f.exit[b] = entry.clone()
				continue
			}
			reach = e.define(fmt.Sprintf("%sR%d", f.prefix, b.Index), "Bool", Or(conds...))
			st = e.mergeStates(states, conds)
			// phis
			if li := f.loops[b]; li != nil {
				st = e.enterLoop(f, li, b, st, reach, preds, conds)
			} else {
				for _, ins := range b.Instrs {
					phi, ok := ins.(*ssa.Phi)
					if !ok {
						break
					}
					var vs []Val
					for _, p := range preds {
						vs = append(vs, e.val(f, phi.Edges[predIndex(b, p)]))
					}
					f.vals[phi] = e.mergeVals(vs, conds, f.prefix+phi.Name())
				}
			}
		}
		f.reach[b] = reach
		e.execBlock(f, b, st, reach)
		f.done[b] = true
	}
}

func predIndex(b, p *ssa.BasicBlock) int {
	for i, x := range b.Preds {
		if x == p {
			return i
		}
	}
	return -1
}

// enterLoop: check the invariant on entry, havoc what the body modifies, assume the invariant.
func (e *Exec) enterLoop(f *Frame, li *loopInfo, h *ssa.BasicBlock, st *State, reach Term, preds []*ssa.BasicBlock, conds []Term) *State {
	// 1. values of header phis on entry
	entryPhi := map[*ssa.Phi]Val{}
	for _, ins := range h.Instrs {
		phi, ok := ins.(*ssa.Phi)
		if !ok {
			break
		}
		var vs []Val
		for _, p := range preds {
			vs = append(vs, e.val(f, phi.Edges[predIndex(h, p)]))
		}
		entryPhi[phi] = e.mergeVals(vs, conds, f.prefix+phi.Name()+"_entry")
	}
	li.preState = st.clone()
	li.reach = reach
	li.preAlloc = e.allocCtr(st)
	li.accum = nil
	// 2. symbols for the loop-carried values (an arbitrary iteration) and their automatic facts
	li.phiSyms = map[*ssa.Phi]Val{}
	for _, ins := range h.Instrs {
		phi, ok := ins.(*ssa.Phi)
		if !ok {
			break
		}
		nv := e.havocVal(phi.Type(), f.prefix+phi.Name())
		if entryPhi[phi].Clo != nil {
			nv.Clo = entryPhi[phi].Clo
		}
		li.phiSyms[phi] = nv
		e.autoPhiFacts(f, li, phi, nv, entryPhi[phi], st)
	}
	// 3. discovery: which components does the body modify (run from an arbitrary iteration)?
	savedLF := e.loopFresh
	e.loopFresh = map[string]bool{}
	for k := range savedLF {
		e.loopFresh[k] = true
	}
	for _, phi := range li.accum {
		e.loopFresh[app("s_base", li.phiSyms[phi].Term)] = true
	}
	mods := e.discoverLoopMods(f, li, st, reach, li.phiSyms)
	e.loopFresh = savedLF
	if os.Getenv("GOVC_DEBUG") != "" && e.discovery == 0 {
		fmt.Fprintf(os.Stderr, "DEBUG loop %d of %s mods:\n", li.ordinal, f.fn.Name())
		for _, m := range sortedKeys(mods) {
			fmt.Fprintf(os.Stderr, "   %s %q\n", m, sortedKeys(mods[m]))
		}
	}
	// 4. inv-init obligations
	for phi, v := range entryPhi {
		f.vals[phi] = v
	}
	e.loopInvariant(f, li, st, reach, "inv-init")
	// 5. havoc
	hs := st.clone()
	e.loopPreAlloc = li.preAlloc
	e.applyHavoc(hs, mods)
	if e.rootCtr != nil && e.rootCtr.Writes != nil && !e.rootCtr.Writes.Assumed {
		// the function's writes clause frames the loop: cells allocated before the call and not listed are unchanged
		for _, m := range sortedKeys(mods) {
			so := e.compSort[m]
			if m == allocComp || !strings.HasPrefix(so, "(Array Int ") || !mods[m][""] {
				continue
			}
			cond := []Term{app("<=", "rq", e.compInit[allocComp])}
			for _, t := range e.rootWrites {
				cond = append(cond, Not(t.contains("rq")))
			}
			old := e.comp(st, m, so)
			nw := hs.comps[m]
			e.assumeKeyed(nw, fmt.Sprintf("(forall ((rq Int)) (! (=> %s (= (select %s rq) (select %s rq))) :pattern ((select %s rq))))", And(cond...), nw, old, nw), "loop frame from the writes clause")
		}
	}
	for phi, nv := range li.phiSyms {
		f.vals[phi] = nv
	}
	e.assume(app(">=", e.allocCtr(hs), li.preAlloc), "")
	li.headerState = hs.clone()
	// 5. assume invariant
	e.loopInvariantAssume(f, li, hs)
	return hs
}

func (e *Exec) havocVal(t types.Type, hint string) Val {
	if tup, ok := t.(*types.Tuple); ok {
		out := Val{T: t}
		for i := 0; i < tup.Len(); i++ {
			out.Tup = append(out.Tup, e.havocVal(tup.At(i).Type(), hint))
		}
		return out
	}
	return Val{T: t, Term: e.fresh(hint, e.reg.sortOf(t))}
}

// autoPhiFacts: cheap automatic invariants for loop-carried values.
func (e *Exec) autoPhiFacts(f *Frame, li *loopInfo, phi *ssa.Phi, nv, entry Val, hs *State) {
	if phi.Comment == "rangeindex" {
		e.assume(app(">=", nv.Term, "(- 1)"), "")
		return
	}
	// a slice accumulated by append only grows; it stays a well-formed slice
	if _, ok := unalias(phi.Type()).Underlying().(*types.Slice); ok {
		if entry.Term == zeroOfSort("Slice") {
			// accumulator starting from nil: its backing array (if any) was allocated inside the loop
			li.accum = append(li.accum, phi)
			if li.accumPre == nil {
				li.accumPre = map[*ssa.Phi]Term{}
			}
			li.accumPre[phi] = li.preAlloc
			e.accumOf[nv.Term] = li.preAlloc
			e.assume(e.accumInvAt(nv.Term, li.preAlloc), "accumulator slice starts nil: backing array allocated in the loop")
		} else if pre, ok := e.accumOf[entry.Term]; ok {
			// nested loop continuing an enclosing loop's accumulator
			li.accum = append(li.accum, phi)
			if li.accumPre == nil {
				li.accumPre = map[*ssa.Phi]Term{}
			}
			li.accumPre[phi] = pre
			e.accumOf[nv.Term] = pre
			e.assume(e.accumInvAt(nv.Term, pre), "accumulator slice of an enclosing loop")
		}
		e.assume(And(app(">=", app("s_len", nv.Term), "0"), app(">=", app("s_off", nv.Term), "0"), app(">=", app("s_cap", nv.Term), app("s_len", nv.Term))), "")
		e.assume(app("<=", app("s_base", nv.Term), e.allocCtr(hs)), "")
	}
	if isRefLike(phi.Type()) {
		if _, isSig := unalias(phi.Type()).Underlying().(*types.Signature); !isSig {
			e.assume(app("<=", nv.Term, e.allocCtr(hs)), "")
		}
	}
}

func (e *Exec) discoverLoopMods(f *Frame, li *loopInfo, st *State, reach Term, entryPhi map[*ssa.Phi]Val) modSet {
	sn := e.snapshot()
	savedDone := map[*ssa.BasicBlock]bool{}
	for k, v := range f.done {
		savedDone[k] = v
	}
	savedVals := map[ssa.Value]Val{}
	for k, v := range f.vals {
		savedVals[k] = v
	}
	savedRets, savedDefers := len(f.rets), len(f.defers)
	e.discovery++
	for phi, v := range entryPhi {
		f.vals[phi] = v
	}
	var order []*ssa.BasicBlock
	for _, b := range f.rpo {
		if li.blocks[b] {
			order = append(order, b)
		}
	}
	for _, b := range order {
		delete(f.done, b)
	}
	// run the body once from the header with the pre-state
	h := li.header
	f.reach[h] = reach
	e.execBlock(f, h, st.clone(), reach)
	f.done[h] = true
	e.runBlocks(f, order, nil, st, reach)
	changed := map[string]bool{}
	check := func(s *State) {
		for k, v := range s.comps {
			if pv, ok := st.comps[k]; !ok || pv != v {
				if !ok && v == e.compInit[k] {
					continue
				}
				changed[k] = true
			}
		}
	}
	for _, b := range order {
		if s := f.exit[b]; s != nil {
			check(s)
		}
	}
	for _, r := range f.rets[savedRets:] {
		check(r.state)
	}
	e.discovery--
	ms := e.refineMods(changed, sn.nlog, sn.nitems)
	e.wlog = e.wlog[:sn.nlog]
	e.rollback(sn)
	f.done = savedDone
	f.vals = savedVals
	f.rets = f.rets[:savedRets]
	f.defers = f.defers[:savedDefers]
	for _, b := range order {
		delete(f.done, b)
		delete(f.exit, b)
		delete(f.reach, b)
	}
	return ms
}

// execBlock executes the non-phi instructions of b.
func (e *Exec) execBlock(f *Frame, b *ssa.BasicBlock, st *State, reach Term) {
	for _, ins := range b.Instrs {
		if _, ok := ins.(*ssa.Phi); ok {
			continue
		}
		if ins.Pos().IsValid() {
			e.curPos = ins.Pos()
		}
		e.execInstr(f, b, ins, st, reach)
	}
	f.exit[b] = st
}

func (e *Exec) setEdges(f *Frame, b *ssa.BasicBlock, reach Term, cond Term) {
	switch len(b.Succs) {
	case 1:
		f.edge[[2]int{b.Index, b.Succs[0].Index}] = reach
	case 2:
		f.edge[[2]int{b.Index, b.Succs[0].Index}] = e.define(fmt.Sprintf("%sE%d_%d", f.prefix, b.Index, b.Succs[0].Index), "Bool", And(reach, cond))
		f.edge[[2]int{b.Index, b.Succs[1].Index}] = e.define(fmt.Sprintf("%sE%d_%d", f.prefix, b.Index, b.Succs[1].Index), "Bool", And(reach, Not(cond)))
	}
}

func (e *Exec) posStr(p token.Pos) string {
	if !p.IsValid() {
		return ""
	}
	ps := e.W.prog.Fset.Position(p)
	return fmt.Sprintf("%s:%d", strings.TrimPrefix(ps.Filename, e.W.repo+"/"), ps.Line)
}

func debugStack() string {
	buf := make([]byte, 4096)
	n := runtime.Stack(buf, false)
	lines := strings.Split(string(buf[:n]), "\n")
	var out []string
	for i := 5; i < len(lines) && i < 15; i += 2 {
		out = append(out, "      "+strings.TrimSpace(lines[i]))
	}
	return strings.Join(out, "\n")
}
