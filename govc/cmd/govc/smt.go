package main

// SMT-LIB helpers: terms are plain strings, scripts are ordered lists of items.

import (
	"bytes"
	"context"
	"fmt"
	"os"
	"os/exec"
	"path/filepath"
	"sort"
	"strings"
	"sync"
	"time"
)

type Term = string

func app(f string, args ...Term) Term {
	if len(args) == 0 {
		return f
	}
	return "(" + f + " " + strings.Join(args, " ") + ")"
}

func And(ts ...Term) Term {
	var xs []Term
	for _, t := range ts {
		if t == "true" || t == "" {
			continue
		}
		if t == "false" {
			return "false"
		}
		xs = append(xs, t)
	}
	switch len(xs) {
	case 0:
		return "true"
	case 1:
		return xs[0]
	}
	return app("and", xs...)
}

func Or(ts ...Term) Term {
	var xs []Term
	for _, t := range ts {
		if t == "false" || t == "" {
			continue
		}
		if t == "true" {
			return "true"
		}
		xs = append(xs, t)
	}
	switch len(xs) {
	case 0:
		return "false"
	case 1:
		return xs[0]
	}
	return app("or", xs...)
}

func Not(t Term) Term {
	switch t {
	case "true":
		return "false"
	case "false":
		return "true"
	}
	if strings.HasPrefix(t, "(not ") && strings.HasSuffix(t, ")") && balanced(t[5:len(t)-1]) {
		return t[5 : len(t)-1]
	}
	return app("not", t)
}

func balanced(s string) bool {
	d := 0
	inStr := false
	for i := 0; i < len(s); i++ {
		c := s[i]
		if c == '"' {
			inStr = !inStr
		}
		if inStr {
			continue
		}
		if c == '(' {
			d++
		} else if c == ')' {
			d--
			if d < 0 {
				return false
			}
		} else if c == ' ' && d == 0 {
			return false
		}
	}
	return d == 0
}

func Implies(a, b Term) Term {
	if a == "true" {
		return b
	}
	if a == "false" || b == "true" {
		return "true"
	}
	return app("=>", a, b)
}

func Eq(a, b Term) Term {
	if a == b {
		return "true"
	}
	return app("=", a, b)
}

func Ite(c, a, b Term) Term {
	if c == "true" {
		return a
	}
	if c == "false" {
		return b
	}
	if a == b {
		return a
	}
	return app("ite", c, a, b)
}

func Select(a, i Term) Term   { return app("select", a, i) }
func Store(a, i, v Term) Term { return app("store", a, i, v) }
func IntLit(n int64) Term {
	if n < 0 {
		return fmt.Sprintf("(- %d)", -n)
	}
	return fmt.Sprintf("%d", n)
}

// StrLit renders a Go string as an SMT-LIB 2.6 string literal.
func StrLit(s string) Term {
	var b strings.Builder
	b.WriteByte('"')
	for _, r := range s {
		switch {
		case r == '"':
			b.WriteString(`""`)
		case r == '\\':
			b.WriteString(`\u{5c}`)
		case r >= 0x20 && r < 0x7f:
			b.WriteRune(r)
		default:
			fmt.Fprintf(&b, `\u{%x}`, r)
		}
	}
	b.WriteByte('"')
	return b.String()
}

// ---------------------------------------------------------------------------------------------
// Script items

type ItemKind int

const (
	ItemDecl   ItemKind = iota // declare-const / declare-fun / declare-datatypes / declare-sort
	ItemDef                    // define-fun sym () sort body
	ItemAssume                 // assert
)

type Item struct {
	Kind ItemKind
	Sym  string // symbol declared/defined (Decl, Def)
	Text string
	Note string // provenance of an assumption (for evidence)
	Init bool   // fact about the initial version of a heap component (emitted right after the declarations)
	Key  string // keyed assumption: only relevant when this symbol is needed (frame axioms, component facts)
	syms []string
}

// symbols occurring in an SMT text (identifier-like tokens)
func symbolsOf(text string) []string {
	var out []string
	i := 0
	n := len(text)
	for i < n {
		c := text[i]
		switch {
		case c == '"':
			i++
			for i < n {
				if text[i] == '"' {
					if i+1 < n && text[i+1] == '"' {
						i += 2
						continue
					}
					break
				}
				i++
			}
			i++
		case c == '(' || c == ')' || c == ' ' || c == '\n' || c == '\t':
			i++
		case c == '|':
			j := i + 1
			for j < n && text[j] != '|' {
				j++
			}
			out = append(out, text[i:j+1])
			i = j + 1
		default:
			j := i
			for j < n && text[j] != '(' && text[j] != ')' && text[j] != ' ' && text[j] != '\n' && text[j] != '\t' {
				j++
			}
			out = append(out, text[i:j])
			i = j
		}
	}
	return out
}

// ---------------------------------------------------------------------------------------------
// Solvers

type SolverResult struct {
	Verdict string // "unsat", "sat", "unknown", "timeout", "error"
	Solver  string
	Seconds float64
	Output  string
	All     map[string]string // solver -> verdict (thorough tier)
}

type solverSpec struct {
	name string
	argv func(file string, timeoutS int) []string
	pre  string
}

var solvers = []solverSpec{
	{"z3-4.8.12", func(f string, t int) []string { return []string{"/usr/bin/z3", fmt.Sprintf("-T:%d", t), f} }, ""},
	{"z3-5.1.0", func(f string, t int) []string { return []string{"z3-new", fmt.Sprintf("-T:%d", t), f} }, ""},
	{"cvc5-1.0", func(f string, t int) []string {
		return []string{"cvc5", "--produce-models", "--incremental", fmt.Sprintf("--tlimit=%d", t*1000), f}
	}, "(set-logic ALL)\n"},
}

func firstLine(s string) string {
	s = strings.TrimSpace(s)
	if i := strings.IndexByte(s, '\n'); i >= 0 {
		return strings.TrimSpace(s[:i])
	}
	return s
}

var solverSem = make(chan struct{}, 16)

// runSolvers races the three solvers on the script; the first definite answer wins.
// If all==true every solver is run to completion (or timeout) and disagreement is flagged.
func runSolvers(dir, name, script string, timeoutS int, all bool, wantModel bool) SolverResult {
	type one struct {
		solver  string
		verdict string
		out     string
		secs    float64
	}
	ctx, cancel := context.WithCancel(context.Background())
	defer cancel()
	ch := make(chan one, len(solvers))
	var wg sync.WaitGroup
	base := filepath.Join(dir, sanitizeFile(name))
	for i, s := range solvers {
		wg.Add(1)
		go func(i int, s solverSpec) {
			defer wg.Done()
			file := fmt.Sprintf("%s.%d.smt2", base, i)
			text := s.pre + script
			if err := os.WriteFile(file, []byte(text), 0o644); err != nil {
				ch <- one{s.name, "error", err.Error(), 0}
				return
			}
			defer os.Remove(file)
			solverSem <- struct{}{}
			defer func() { <-solverSem }()
			if ctx.Err() != nil {
				ch <- one{s.name, "cancelled", "", 0}
				return
			}
			argv := s.argv(file, timeoutS)
			cctx, ccancel := context.WithTimeout(ctx, time.Duration(timeoutS+2)*time.Second)
			defer ccancel()
			cmd := exec.CommandContext(cctx, argv[0], argv[1:]...)
			var out bytes.Buffer
			cmd.Stdout = &out
			cmd.Stderr = &out
			t0 := time.Now()
			_ = cmd.Run()
			secs := time.Since(t0).Seconds()
			fl := firstLine(out.String())
			v := "unknown"
			switch {
			case fl == "unsat":
				v = "unsat"
			case fl == "sat":
				v = "sat"
			case strings.Contains(fl, "timeout") || cctx.Err() == context.DeadlineExceeded:
				v = "timeout"
			case fl == "unknown":
				v = "unknown"
			case ctx.Err() != nil:
				v = "cancelled"
			default:
				if strings.Contains(out.String(), "error") {
					v = "error"
				}
			}
			ch <- one{s.name, v, out.String(), secs}
		}(i, s)
	}
	go func() { wg.Wait(); close(ch) }()
	res := SolverResult{Verdict: "unknown", All: map[string]string{}}
	var errOut string
	for o := range ch {
		res.All[o.solver] = o.verdict
		if o.verdict == "error" {
			errOut += o.solver + ": " + firstLine(o.out) + "\n"
		}
		if o.verdict == "unsat" || o.verdict == "sat" {
			if res.Verdict != "unsat" && res.Verdict != "sat" {
				res.Verdict = o.verdict
				res.Solver = o.solver
				res.Seconds = o.secs
				res.Output = o.out
				if !all {
					cancel()
				}
			} else if res.Verdict != o.verdict {
				res.Verdict = "disagree"
			}
		} else if res.Verdict == "unknown" && o.verdict == "timeout" {
			res.Verdict = "timeout"
		}
	}
	if res.Verdict != "unsat" && res.Verdict != "sat" && res.Output == "" {
		res.Output = errOut
		if errOut != "" && res.Verdict == "unknown" {
			allErr := true
			for _, v := range res.All {
				if v != "error" {
					allErr = false
				}
			}
			if allErr {
				res.Verdict = "error"
			}
		}
	}
	return res
}

func sanitizeFile(s string) string {
	var b strings.Builder
	for _, r := range s {
		if (r >= 'a' && r <= 'z') || (r >= 'A' && r <= 'Z') || (r >= '0' && r <= '9') || r == '_' || r == '-' || r == '.' {
			b.WriteRune(r)
		} else {
			b.WriteByte('_')
		}
	}
	s = b.String()
	if len(s) > 120 {
		s = s[:120]
	}
	return s
}

func sortedKeys[V any](m map[string]V) []string {
	ks := make([]string, 0, len(m))
	for k := range m {
		ks = append(ks, k)
	}
	sort.Strings(ks)
	return ks
}
